#!/usr/bin/env python3
"""dev helper: confirm a sub-agent's seeded change in its scratch worktree (never /repo):
demo passes without the patch, fails with it; the patched tree builds and the unedited workspace suite passes.
usage: verify_seed.py <ID> [--base /tmp/seed_<ID>]   -> <base>/verify.json"""
import json, os, subprocess, sys, time
import re
arg = sys.argv[1]
# either a seed id (round 1 layout /tmp/seed_<ID>/out) or a directory holding patch.diff / demo.diff / meta.json
out = arg if os.path.isdir(arg) else "/tmp/seed_%s/out" % arg
sid = arg
base = out
# one shared verification worktree + target dir for all seeds (disk: a per-seed target grows to 20+ GB)
wt, tgt = "/tmp/verify/wt", "/tmp/verify/target"
meta = json.load(open(out + "/meta.json"))
meta["demo_cmd"] = re.sub(r"/tmp/seed[23]?_\w+/target", tgt, meta["demo_cmd"])
meta["demo_cmd"] = re.sub(r"/tmp/seed[23]?_\w+/wt", wt, meta["demo_cmd"])
env = dict(os.environ, CARGO_TARGET_DIR=tgt, CARGO_NET_OFFLINE="true", CARGO_INCREMENTAL="0",
           CARGO_PROFILE_DEV_DEBUG="0", CARGO_PROFILE_TEST_DEBUG="0")
def sh(cmd, **kw):
    r = subprocess.run(cmd, shell=True, cwd=wt, env=env, stdout=subprocess.PIPE, stderr=subprocess.STDOUT, text=True, **kw)
    return r.returncode, r.stdout
def clean():
    sh("git checkout -- . && git clean -fdq")
res = {"id": sid, "demo_cmd": meta["demo_cmd"]}
t0 = time.time()
clean()
rc, o = sh("git apply %s/demo.diff" % out); res["demo_applies_clean"] = rc == 0
rc, o = sh(meta["demo_cmd"]); res["demo_without_patch_rc"] = rc; res["demo_without_patch_tail"] = o.strip().splitlines()[-4:]
rc, o = sh("git apply %s/patch.diff" % out); res["patch_applies_on_demo"] = rc == 0
rc, o = sh(meta["demo_cmd"]); res["demo_with_patch_rc"] = rc; res["demo_with_patch_tail"] = [l for l in o.splitlines() if "panicked" in l or "FAILED" in l or "test result" in l][-5:]
clean()
rc, o = sh("git apply %s/patch.diff" % out); res["patch_applies_clean"] = rc == 0
rc, o = sh("cargo nextest run --workspace --no-fail-fast --test-threads 8 --offline")
res["suite_with_patch_rc"] = rc
res["suite_tail"] = [l for l in o.splitlines() if "Summary" in l or " FAIL " in l or "error" in l.lower()][-8:]
if rc != 0:
    # one known-flaky test: rerun the failures once
    rc2, o2 = sh("cargo nextest run --workspace --no-fail-fast --test-threads 8 --offline")
    res["suite_with_patch_rc_rerun"] = rc2
    res["suite_tail_rerun"] = [l for l in o2.splitlines() if "Summary" in l or " FAIL " in l][-8:]
clean()
res["wall_s"] = round(time.time() - t0)
res["confirmed"] = bool(res["demo_applies_clean"] and res["demo_without_patch_rc"] == 0 and res["patch_applies_on_demo"] and res["demo_with_patch_rc"] != 0
                        and res["patch_applies_clean"] and (res["suite_with_patch_rc"] == 0 or res.get("suite_with_patch_rc_rerun") == 0))
json.dump(res, open((base if os.path.isdir(arg) else "/tmp/seed_%s" % arg) + "/verify.json", "w"), indent=1)
print(json.dumps(res, indent=1))
