#!/usr/bin/env python3
"""dev helper: file a confirmed seeded change under /verif/seeded/<name>/.
usage: keep_seed.py <ID> <name> <initially: caught|missed> <note> <PROP=keyfragment> [<PROP=keyfragment> ...]"""
import json, os, shutil, sys
VERIF = os.path.dirname(os.path.dirname(os.path.abspath(__file__)))
sid, name, initially, note = sys.argv[1:5]
det = {}
for a in sys.argv[5:]:
    p, k = a.split("=", 1)
    det.setdefault(p, []).append(k)
if os.path.isdir(sid):
    base = sid
    ver = json.load(open(base + "/verify.json"))
    outd = base
else:
    base = "/tmp/seed_%s" % sid
    ver = json.load(open(base + "/verify.json"))
    outd = base + "/out"
assert ver["confirmed"], "not confirmed"
meta = json.load(open(outd + "/meta.json"))
dst = os.path.join(VERIF, "seeded", name)
os.makedirs(dst, exist_ok=True)
shutil.copy(outd + "/patch.diff", dst + "/patch.diff")
shutil.copy(outd + "/demo.diff", dst + "/demo.diff")
out = {
    "property": meta["property"],
    "summary": meta.get("summary"),
    "breaks": meta.get("breaks"),
    "needs_to_manifest": meta.get("needs_to_manifest"),
    "demo": "demo.diff (apply on top of the tree, with or without patch.diff)",
    "demo_cmd": ver["demo_cmd"],
    "origin": "fresh sub-agent given only the property text and a scratch worktree",
    "confirmed_by_me": {
        "where": "scratch worktree /tmp/verify/wt of /repo HEAD (removed afterwards), shared target dir",
        "demo_without_patch": "exit %d (passes)" % ver["demo_without_patch_rc"],
        "demo_with_patch": "exit %d (fails): %s" % (ver["demo_with_patch_rc"], " | ".join(ver["demo_with_patch_tail"])[:400]),
        "existing_suite_with_patch": "cargo nextest run --workspace --no-fail-fast --test-threads 8 --offline -> exit %d; %s" % (
            ver.get("suite_with_patch_rc_rerun", ver["suite_with_patch_rc"]), (ver.get("suite_tail_rerun") or ver["suite_tail"])[-1].strip()),
    },
    "checks_run": "tools/checkpatch.py (patch applied to a scratch copy of /repo's tree, quick rules of the listed properties)",
    "initially": initially,
    "note": note,
    "detected_by": det,
}
json.dump(out, open(dst + "/meta.json", "w"), indent=1)
print("kept", dst, det)
