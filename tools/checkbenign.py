#!/usr/bin/env python3
"""dev helper: apply each behaviour-preserving refactoring /tmp/benign_<ID>/out/r*.diff to a scratch copy of /repo
(never /repo itself), one at a time, and run the quick rules of the given properties; every report is a false alarm.
usage: checkbenign.py <ID> PROP [PROP ...]   -> /tmp/benign_<ID>/result.json"""
import glob, json, os, sys
VERIF = os.path.dirname(os.path.dirname(os.path.abspath(__file__)))
sys.path.insert(0, VERIF)
from lib import selftest
sid = sys.argv[1]
props = [p.upper() for p in sys.argv[2:]]
base = "/tmp/benign_%s/out" % sid
res = {}
sc = selftest.Scratch()
try:
    for pf in sorted(glob.glob(base + "/r*.diff")):
        name = os.path.basename(pf)
        ok, why, undo = sc.apply({"kind": "patch", "patch": pf})
        if not ok:
            res[name] = {"applies": False}
            print(name, "does not apply"); continue
        r = {}
        for p in props:
            rc, keys, out = sc.check(p)
            r[p] = {"rc": rc, "keys": keys, "tail": out.strip().splitlines()[-6:] if rc != 0 else []}
            print(name, p, "silent" if rc == 0 else "ALARM rc=%d %r" % (rc, keys[:4]), flush=True)
            if rc == 2:
                print("\n".join(out.strip().splitlines()[-6:]))
        undo()
        res[name] = r
finally:
    sc.close()
json.dump(res, open("/tmp/benign_%s/result.json" % sid, "w"), indent=1)
