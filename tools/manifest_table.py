# executed by gen_manifest.py
claim("C06",
      "Decides, over every CFG path of every externally callable Collection method and of the AndaDB open/close/delete/create paths, the "
      "admission skeleton (gate -> mutability check -> effects; failure edge effect-free), cancel-guard coverage of every suspension point with an "
      "effect in flight, the constant lifecycle transition table (path-sensitive: source states of every CAS/store), and the delete/open/close ordering. "
      "A rule instance is an obligation about that clause, not a proof of the behavioural property.",
      "Trusted: rustc MIR construction and callee resolution; Rust drop semantics; tokio/parking_lot locks are locks; unwind paths ignored. "
      "Not decided: that drop glue runs the guard, state after reopen, value-level semantics.",
      "MIR dominance/must-pass-through + guard-liveness dataflow + path-sensitive constant state analysis", "DESIGN §4 C06")

claim("C01",
      "Decides the write-ordering and write-ahead skeleton of the collection crash protocol on every CFG path: checkpoint step order and Ok-edge chaining, "
      "intent-before-mutation (path-sensitive), watermark-before-create, unknown-outcome => poison, id allocator monotonic, who-may-write table of commit objects, "
      "recovery order in open, no dropped storage-write Result. Obligations are about these clauses, not about recovery convergence.",
      "Trusted: rustc MIR and callee resolution; object_store puts atomic; private helper names (flush_inner, store_ids, ...) are anchors - a rename fails closed (exit 2). "
      "Not decided: sufficiency of the protocol, nested crashes, backend semantics, decoded document integrity.",
      "MIR must-pass-through / ordering on the CFG, Ok/Err edge dominance, path operand slicing to path constants, path-sensitive option correlation", "DESIGN §4 C01")

claim("C03",
      "Decides the page-end clause: the scan bound never reaches a callback (key-ordered early stop), recursive operand evaluation is unbounded, every limit-controlled early exit "
      "sits in an id-ordered loop, success paths pass truncate/sort, entry points pass a constant direction, complexity validation first. Found and repaired one genuine defect "
      "(fix: a8a23ed). It decides that structural part, not the value-level set algebra.",
      "Trusted: rustc MIR; BTreeSet iterates ascending; sort_unstable+dedup gives an ascending duplicate-free list. Not decided: Eq/Between/Include semantics, complement correctness, fusion order.",
      "MIR def-use taint of the bound into closure captures, constant-operand check on recursive calls, loop/iterator-source classification, must-pass-through", "DESIGN §4 C03")

claim("C02",
      "Decides maintenance symmetry and rollback completeness: index-family coverage of every maintaining function (families enumerated from the Collection type), inverse "
      "operations in the rollback closure per family, rollback-or-poison on every error path after the first index mutation, id-bitmap/ordered-set pairing, agreement of the typed "
      "B-tree wrapper's insert/remove/query arms and its equality fold, backfill-before-registration. Not a proof that index content equals the documents.",
      "Trusted: rustc MIR; wrapper method names denote their effect. Not decided: equality of index content and documents over histories; BM25/HNSW answers; phantom absence after recovery.",
      "sibling/table agreement over MIR (ADT field enumeration, match-arm extraction by dominating variant edges), must-pass-through with path-sensitive feasibility", "DESIGN §4 C02")

claim("C04",
      "Decides the structural necessary conditions of uniqueness and rejection-leaves-no-trace: in-lock re-check of the unique constraint with a failing edge that cannot reach the append, "
      "insert-new-before-remove-old in index updates, validate-before-mutate ordering in add/update, unique-indexes-first registration, replay removes recorded images before re-insert "
      "(rollback completeness is decided under C02).",
      "Trusted: rustc MIR; DashMap::entry holds the shard lock while the Entry lives. Not decided: absence of duplicates under actual interleavings; value-level 'no trace'.",
      "MIR dominance between entry-lock acquisition, constraint read and append; Ok/Err edge ordering; must-pass-through", "DESIGN §4 C04")
claim("C05",
      "Decides the lock discipline the serialization argument rests on: gate mode per entry class and guard liveness across all effect sites, stripe lock across the read-modify-write, "
      "single atomic id allocation, cache-generation bump on every backend write success path and generation-guarded cache fill/hit, extension gate ordering and who-may-call of the claimed metadata writers.",
      "Trusted: rustc MIR; tokio/parking_lot locks; guard released at Drop. Not decided: linearizability, return values, what a concurrent flush persisted.",
      "guard-liveness must-hold dataflow over MIR, call-graph effect classes, must-pass-through on success edges, who-may-call tables", "DESIGN §4 C05")

claim("C07",
      "Claims the CAS clause only: precondition-before-write on the Update edge, mismatch/missing token can never return Ok, fresh backend read inside the per-key section, create-iff-absent, "
      "per-commit freshness of every e_tag/generation written into either Metadata type (taint from new_generation()/rand_bytes() through hashers, captures, uploader fields, the copy protocol), "
      "and reported metadata taken from the commit point. Equivalence with a reference object store over call sequences is not decidable by static analysis and is not claimed.",
      "Trusted: rustc MIR; SHA3 collision resistance; freshness of new_generation()/rand_bytes(). Not decided: reference-store equivalence, range arithmetic, precondition precedence, listings.",
      "forward may-taint with &mut propagation (must-flow of fresh sources into token fields), Ok/Err-edge must-pass-through, who-reads-the-cache check", "DESIGN §4 C07")
claim("C08",
      "Decides the structure of the immutable-generation commit protocol: who may write meta/ and payload paths (path operands resolved to the path helpers; generation minted by new_generation()), "
      "payload -> pointer -> reclaim ordering, in-flight guard liveness across the commit, collector deletes only on not-in-flight and not-referenced edges, single re-resolve on stale pointers.",
      "Trusted: rustc MIR; atomic backend puts; moka per-key compute section. Not decided: byte-level old-or-new equality after each crash prefix, legacy migration content, cross-process races.",
      "who-may-write table over sliced path operands, CFG ordering on Ok edges, guard-liveness dataflow, constant-flag path sensitivity", "DESIGN §4 C08")
claim("C09",
      "Decides AAD completeness against the Metadata type definition, AAD/nonce/tag provenance of every AEAD call, verify-before-use dominance on all read and reuse paths, nonce freshness and counter "
      "advance, plaintext confinement (no direct flow of the caller payload into a backend write; encrypting loop dominates each write; MetaStore as positive control), and that no AEAD/verify Result is dropped.",
      "Trusted: rustc MIR; AES-GCM; rand_bytes(). Not decided: cryptographic and byte-level tamper outcomes, truncation arithmetic, that every chunk (not only the loop) is encrypted.",
      "table agreement (ADT fields vs fields read), backward slicing of AEAD operands, dominance, forward taint, error-discipline check", "DESIGN §4 C09")

claim("C10",
      "Decides the lock and commit skeleton of the B-tree index: mutation gate mode and liveness at every mutable access plus the who-may-mutate table, the manifest commit protocol of the index "
      "and of its anda_db wrapper, in-lock re-checks of the ordered key set, loader order, depth check before recursion. Ordered-multimap equivalence is not decided.",
      "Trusted: rustc MIR; DashMap/parking_lot locks; the collection's exclusive gate separates flush from mutation (C05). Not decided: model equality, early termination positions, crash-prefix content.",
      "guard-liveness dataflow, who-may-mutate tables from field-resolved receivers, CFG ordering on Ok edges, bool-edge dominance", "DESIGN §4 C10")
claim("C11",
      "Decides the mutation gate and manifest commit skeleton of the full-text index (with a sibling-agreement check against the B-tree protocol), that ranking uses one total-order comparator "
      "(total_cmp + id) everywhere with truncate-after-select then sort, that scoring parameters pass through sanitized(), and the live-document filter and NOT-complement guard. Retrieval exactness is not decided.",
      "Trusted: rustc MIR; f32::total_cmp total order; locks. Not decided: retrieval-set exactness, scores, counters over histories.",
      "guard-liveness dataflow, CFG ordering, sibling skeleton agreement, who-reads-field table, fn-item operand resolution of comparators", "DESIGN §4 C11")
claim("C12",
      "Weakest claim: decides only persistence order (nodes -> ids -> metadata -> commit, stop/err edges, purge after flush, tombstone after acknowledged delete, conditional puts), structural-lock "
      "coverage of every structural write, and the result bound / input validation / no-duplicate-neighbour structure of search. Distances, ordering by the metric and recall floors are NOT decided.",
      "Trusted: rustc MIR; parking_lot Mutex. Not decided (the bulk of the property): true distances, metric ordering, recall floors and margins, graph repair quality.",
      "CFG ordering and Ok/Err/bool-edge reachability, guard-liveness dataflow incl. helper-caller check, must-pass-through of truncate(top_k)", "DESIGN §4 C12")

claim("C14",
      "Decides, over the whole call graph, that every RPC method the service labels Read (cancellable) reaches no backend write, index mutation, engine/handle mutator or AppState mutator "
      "(method/effect table and dispatch arms both extracted from the code; one shape-checked exception: the detached cold-open task), that authorization dominates parsing and dispatch, that the "
      "authorized scope and the dispatched database are the same value, that handler modules cannot see server state, and that refusals are uniform and registry-independent.",
      "Trusted: rustc MIR and callee resolution (dyn/generic calls over-approximated); axum layer ordering; tokio::spawn detaches. Not decided: the full request matrix, key-change histories, timing.",
      "call-graph effect reachability per dispatch arm (table agreement), dominance on Ok edges, def-use slicing of the scope/database operands, signature scan", "DESIGN §4 C14")

claim("C15",
      "Decides the structure behind totality and boundedness: budget pre-scan first in every entry, all_consuming wrapper, validator on the success path, every cycle of the parser call graph "
      "(incl. hand-written Parser impls and fn items passed to combinators) passes a depth check on a threaded depth parameter or a bracket-consuming step, explicit panic constructs reachable "
      "from the entries are exactly the reviewed table, and classification never depends on a declared language. Determinism under case/whitespace/comments and the serde round trip are not decided.",
      "Trusted: rustc MIR; nom combinators call only the parsers they are handed; the pre-scan bounds bracket nesting; serde_json's recursion limit for injected trees. Panic table is a reviewed list ('unreviewed panic site' is a weaker verdict).",
      "call-graph SCC analysis with witness removal (acyclic remainder), dominance on Ok edges, reachable panic-construct table, argument-provenance slicing", "DESIGN §4 C15")
claim("C16",
      "Decides completeness of the tree validator against the AST type definitions: every assignment-bearing field/action enumerated from the types is read in its arm and passed to a closure "
      "reaching is_protected_field; every WHERE-bearing payload is returned by clause_where; every matcher-bearing WhereClause variant is descended into and BELIEF selectors refused; pre-parsed "
      "trees are validated before use; guards and their tables are wired once; the scan that tells the UPDATE guards the target's kind visits every WHERE clause (this rule found the defect repaired by "
      "fix 44c862e); ASSERT desugars to exactly the three clauses and requires by/mode. Value-level spelling of names is not decided.",
      "Trusted: rustc MIR; type definitions as seen by rustc; is_protected_field is the protected-field test. Not decided: case/quoting variants of field names, nested path semantics.",
      "table agreement between ADT definitions and match-arm regions (type-directed), def-use flow of field reads into check closures, const-reference who-uses tables", "DESIGN §4 C16")

claim("C13",
      "Decides the agreement between validation and normalization (cross-variant pairs extracted from the match arms of both), extract coverage of every declared type, that Document stores "
      "values only after normalization (untyped inputs) and validation on every path, that every recursive component over values is depth-checked on every cycle or entered behind the complexity "
      "budget, and the accept-edge / index-allocation structure of schema upgrades. The value-level round trip is not decided.",
      "Trusted: rustc MIR; serde/cbor2 recursion limits for visitor recursion. Not decided: value-level equality after a round trip for all types and values; derive-macro output.",
      "match-arm pair extraction by dominating variant edges (sibling agreement), must-pass-through on Ok edges, call-graph SCC budget witnesses, operand-provenance slicing", "DESIGN §4 C13")

claim("C17",
      "Decides the transactional skeleton: lock mode and liveness per command family, reads that cannot write (call-graph reachability, PREVIEW as the one shape-checked dry-run exception), "
      "shell removal on every refusal after begin (this rule found the defect repaired by fix d4f7213), single assignment of element versions from the value commit computes, commit step order, and that every #[unique] column of an element row type has a pre-write identity check over the staged rows "
      "(found the defect repaired by fix a25879d). "
      "Observable equality over the whole state space and reader isolation under real schedules are not decided; the PREVIEW-under-shared-lock overlap is recorded as an observation.",
      "Trusted: rustc MIR; tokio RwLock; anda_db Collection methods are the only storage primitives. Not decided: nothing-observable-changed over all states, partial commit after a mid-loop storage failure.",
      "call-graph effect reachability, guard-liveness dataflow, Err-edge must-pass-through to the shell removal, who-writes-field tables, CFG ordering", "DESIGN §4 C17")
claim("C18",
      "Decides that every transactional element put is followed by the version-log append of the same row, that element rows and the version log have only the confirmed writers/removers (log append-only, "
      "removal only for staged purges), and that the read context routes a bound coordinate to the history and admits before caching/returning. Equality of historical and then-live answers is not decided.",
      "Trusted: rustc MIR; the version log is the element_versions collection. Not decided: historical == then-live query results; schema environment resolution at the coordinate.",
      "must-pass-through on Ok edges with same-row operand check, who-may-call / who-touches-collection tables from sliced receivers, variant-edge dominance", "DESIGN §4 C18")
claim("C19",
      "Decides the read choke point (who materialises element rows; admit decides and redacts before caching/returning; only redacted views on the KQL path), control-plane isolation (no authority-changing "
      "Governance mutator reachable from any KIP command; governance blocks only by commit-time propagation on new rows; audit append-only), permission tables without permissionless fall-through, "
      "per-element authorization before every staged change (dataflow from Targets::authorized or path-sensitive dominance), and decision order / default deny. Non-interference is not decided.",
      "Trusted: rustc MIR and callee resolution; GovernanceStore is the only holder of governance collections. Not decided: non-interference, masked-field inference, delegation attenuation arithmetic.",
      "call-graph reachability against an enumerated mutator set, who-may-read tables, def-use provenance of staged ids, path-sensitive must-pass-through, variant-edge dominance", "DESIGN §4 C19")

NA["C20"] = ("every clause is an algebraic law over runtime multisets of assertions (permutation invariance, monotone score fold, thresholds); "
             "no clause is visible in the shape of the code, so static analysis cannot decide it (DESIGN §6)")
