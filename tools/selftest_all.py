#!/usr/bin/env python3
"""dev helper: run the sensitivity self-test of several properties in parallel, store the raw results.
usage: selftest_all.py <outdir> [-j N] [PROP ...]"""
import json, os, subprocess, sys
from concurrent.futures import ThreadPoolExecutor
VERIF = os.path.dirname(os.path.dirname(os.path.abspath(__file__)))
args = sys.argv[1:]
out = args.pop(0)
j = 3
if args and args[0] == "-j":
    j = int(args[1]); args = args[2:]
props = args or sorted(os.path.basename(p)[:-5] for p in os.listdir(os.path.join(VERIF, "selftest")) if p.endswith(".json"))
os.makedirs(out, exist_ok=True)
def one(p):
    r = subprocess.run([sys.executable, os.path.join(VERIF, "lib", "selftest.py"), p], stdout=subprocess.PIPE, stderr=subprocess.PIPE, text=True)
    open(os.path.join(out, p + ".json"), "w").write(r.stdout)
    open(os.path.join(out, p + ".log"), "w").write(r.stderr)
    try:
        d = json.loads(r.stdout)
        return "%s variants=%d applied=%d detected=%d missed=%d skipped=%d %.0fs" % (p, d["variants"], d["applied"], d["detected"], len(d["missed"]), len(d["skipped"]), d.get("wall_s", 0))
    except Exception as e:
        return "%s FAILED %s %s" % (p, e, r.stderr[-300:])
with ThreadPoolExecutor(j) as ex:
    for line in ex.map(one, props):
        print(line, flush=True)
