#!/usr/bin/env python3
"""Rewrite the SEEDED / BENIGN blocks of DESIGN.md from seeded/*/meta.json and benign/*/meta.json."""
import glob, json, os, re
VERIF = os.path.dirname(os.path.dirname(os.path.abspath(__file__)))
rows = ["| seeded change | property | what it needs to manifest | initially | caught by | note |", "|---|---|---|---|---|---|"]
n = miss = 0
for mp in sorted(glob.glob(os.path.join(VERIF, "seeded", "*", "meta.json"))):
    m = json.load(open(mp))
    name = os.path.basename(os.path.dirname(mp))
    det = "; ".join("%s: `%s`" % (p, k.replace("|", "\\|")) for p, ks in m.get("detected_by", {}).items() for k in ks) or "**not caught** (see note)"
    need = (m.get("needs_to_manifest") or "").replace("|", "\\|").replace("\n", " ")
    if len(need) > 260:
        need = need[:257] + "..."
    rows.append("| `%s` — %s | %s | %s | %s | %s | %s |" % (name, (m.get("summary") or "").replace("|", "\\|").replace("\n", " ")[:300], m["property"], need,
                                                   m.get("initially", ""), det, (m.get("note") or "").replace("|", "\\|")))
    n += 1
    miss += 1 if m.get("initially") == "missed" else 0
rows.append("")
rows.append("%d seeded changes kept; %d were caught by the rules as they stood, %d were missed at first and led to new rules." % (n, n - miss, miss))
brow = ["| refactoring | property | what | rules silent? | note |", "|---|---|---|---|---|"]
nb = fa = 0
for mp in sorted(glob.glob(os.path.join(VERIF, "benign", "*", "meta.json"))):
    m = json.load(open(mp))
    for r in m.get("refactorings", []):
        nb += 1
        fa += 0 if r.get("silent_initially", True) else 1
        brow.append("| `%s/%s` | %s | %s | %s | %s |" % (os.path.basename(os.path.dirname(mp)), r["file"], m["property"], (r.get("what") or "").replace("|", "\\|")[:260],
                                                    "yes" if r.get("silent_initially", True) else "**no - false alarm, corrected**", (r.get("note") or "").replace("|", "\\|")))
brow.append("")
brow.append("%d refactorings kept as benign controls; %d exposed a false alarm that was then corrected." % (nb, fa))
p = os.path.join(VERIF, "DESIGN.md")
s = open(p).read()
s = re.sub(r"<!-- SEEDED-BEGIN -->.*?<!-- SEEDED-END -->", lambda _: "<!-- SEEDED-BEGIN -->\n" + "\n".join(rows) + "\n<!-- SEEDED-END -->", s, flags=re.S)
s = re.sub(r"<!-- BENIGN-BEGIN -->.*?<!-- BENIGN-END -->", lambda _: "<!-- BENIGN-BEGIN -->\n" + "\n".join(brow) + "\n<!-- BENIGN-END -->", s, flags=re.S)
open(p, "w").write(s)
print("DESIGN.md seeded/benign blocks rewritten:", n, "seeded,", nb, "benign")
