#!/usr/bin/env python3
"""dev helper: print events / blocks of a function from the fact files."""
import sys, os, json
sys.path.insert(0, os.path.dirname(os.path.dirname(os.path.abspath(__file__))))
from lib import core, facts
crate, pat = sys.argv[1], sys.argv[2]
mode = sys.argv[3] if len(sys.argv) > 3 else "events"
prog = core.Program([crate])
import re
for f in prog.fns_matching(pat):
    print("==", f.path, f.kind, f.coroutine, "blocks", f.n, f.file, f.line)
    if mode == "events":
        for e in sorted(f.events, key=lambda e: (e.block, e.idx)):
            if e.callee in core.NOISE_CALLEES or e.callee in (core.TRY_BRANCH, core.FROM_RESIDUAL): continue
            print("  bb%-4d %-6s %s%s  ln %d %s" % (e.block, e.kind, e.name, "  [awaited]" if e.awaited else "", e.line, ("self=" + e.finfo.get("self","")[:50]) if e.finfo and e.finfo.get("self") else ""))
    elif mode == "raw":
        for i, b in enumerate(f.blocks):
            if b.get("cl"): continue
            for s in b["s"]:
                if s[0] == "DEAD": continue
                print("  bb%d  %s" % (i, json.dumps(s)[:300]))
            print("  bb%d  T %s" % (i, json.dumps(b["t"])[:400]))
    elif mode == "dbg":
        print(json.dumps(f.dbg, indent=0)[:3000])
