#!/usr/bin/env python3
"""Freeze the list of function def paths of the tree the rules were written against (rules/pinned_fns.txt.gz).
Run only when the rules have been reviewed against the current /repo tree."""
import os, sys
VERIF = os.path.dirname(os.path.dirname(os.path.abspath(__file__)))
sys.path.insert(0, VERIF)
from lib import facts, inline
facts.ensure_facts()
paths = set()
for c, kinds in facts.EXPECTED.items():
    for k in kinds:
        for f in facts.load_crate(c, k)["fns"]:
            if f["kind"] != "Closure":
                paths.add(f["path"])
inline.write_pinned(paths)
print(len(paths), "paths frozen")
