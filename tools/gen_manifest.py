#!/usr/bin/env python3
"""Regenerates MANIFEST.json from the per-property table below (single source of truth)."""
import json, os
V = os.path.dirname(os.path.dirname(os.path.abspath(__file__)))

CLAIMED = {}   # id -> dict(text, note, technique, design_ref)
NA = {}        # id -> reason


def claim(pid, text, note, technique, ref):
    CLAIMED[pid] = dict(text=text, note=note, technique=technique, ref=ref)


exec(open(os.path.join(V, "tools", "manifest_table.py")).read())

checks = []
for pid in sorted(CLAIMED):
    c = CLAIMED[pid]
    checks.append({
        "property_id": pid,
        "quick_cmd": "./check %s --tier quick" % pid,
        "thorough_cmd": "./check %s --tier thorough" % pid,
        "evidence_file": "/verif/evidence/%s.json" % pid,
        "replay_cmd_template": "./check %s --replay {path}" % pid,
        "engine": "mirfacts+rules",
        "level_claimed": {"category": "other", "text": c["text"], "design_ref": c["ref"]},
        "level_note": c["note"],
        "technique": c["technique"] + "; thorough tier adds a sensitivity self-test of these rules (one-site breaking variants, confirmed "
                     "sub-agent-seeded changes and behaviour-preserving refactorings applied to a scratch copy of the tree, compiled by the driver and analysed, never executed)",
    })
m = {
    "version": 1,
    "setup_cmd": "./setup.sh",
    "hooks": {
        "guard": "anda_db_verif",
        "enable": "none needed: the analysis reads rustc MIR of the unmodified sources (RUSTC_WORKSPACE_WRAPPER=mirfacts under cargo +nightly check)",
        "baseline_off_cmd": "cd /repo && cargo nextest run --workspace --no-fail-fast --test-threads 8 --offline || (cd /repo && cargo test --workspace --no-fail-fast --offline)",
        "source_commits": [],
        "add_only": True,
    },
    "engines": [
        {"name": "mirfacts", "path": "/verif/mirfacts", "serves_properties": sorted(CLAIMED),
         "kind_free_text": "rustc_private driver (nightly) dumping MIR-as-built, resolved callees, ADT and const facts per workspace crate"},
        {"name": "rules", "path": "/verif/rules", "serves_properties": sorted(CLAIMED),
         "kind_free_text": "Python rule engine over the fact files: CFG dominance / must-pass-through, guard liveness dataflow, call-graph effect reachability, def-use slicing, path-sensitive small-domain value flow, table agreement; helpers absent from the pinned tree are inlined (lib/inline.py)"},
        {"name": "selftest", "path": "/verif/lib/selftest.py", "serves_properties": sorted(CLAIMED),
         "kind_free_text": "thorough tier: mutation-adequacy and false-alarm controls of the rule engine on a scratch copy of the current tree (selftest/*.json, seeded/*/patch.diff, benign/*/r*.diff)"},
    ],
    "checks": checks,
    "notes": "Technique family: static analysis only. Every check re-extracts MIR facts from /repo's working tree when any source file changed (content hashes), fails closed (exit 2) when an anchor is missing. Nineteen genuine defects were found and repaired in /repo (fix: commits a8a23ed C03, d4f7213 a25879d f75f639 44c1e5b C17, 44c862e 1519544 bbdf918 C16, ab159d7 C11, 58be4a8 8f9b090 C19, d1f4049 0847fe6 C06, 868fb5b C13, 7c960b5 C14, 449d88e 8a092d5 3d70ec5 b66cd72 C18; known_findings.json lists them under fixed). Four are recorded as open known findings reported by a rule (C06 close flushes a read-only handle, C14 reads checkpoint on a cold open, C17 content refusal inside the write loop, C19 pushdown on masked fields) and two C13 defects are listed as demonstrated only (no sound static rule). See DESIGN.md (section 11 for seeded changes and benign controls) and RULES.md.",
    "not_applicable": [{"property_id": k, "reason": v} for k, v in sorted(NA.items())],
}
json.dump(m, open(os.path.join(V, "MANIFEST.json"), "w"), indent=1)
print("claimed", sorted(CLAIMED), "n/a", sorted(NA))
