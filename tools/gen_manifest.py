#!/usr/bin/env python3
"""Regenerates MANIFEST.json from the per-property table below (single source of truth)."""
import json, os
V = os.path.dirname(os.path.dirname(os.path.abspath(__file__)))

CLAIMED = {}   # id -> dict(text, note, technique, design_ref)
NA = {}        # id -> reason


def claim(pid, text, note, technique, ref):
    CLAIMED[pid] = dict(text=text, note=note, technique=technique, ref=ref)


exec(open(os.path.join(V, "tools", "manifest_table.py")).read())

checks = []
for pid in sorted(CLAIMED):
    c = CLAIMED[pid]
    checks.append({
        "property_id": pid,
        "quick_cmd": "./check %s --tier quick" % pid,
        "thorough_cmd": "./check %s --tier thorough" % pid,
        "evidence_file": "/verif/evidence/%s.json" % pid,
        "replay_cmd_template": "./check %s --replay {path}" % pid,
        "engine": "mirfacts+rules",
        "level_claimed": {"category": "other", "text": c["text"], "design_ref": c["ref"]},
        "level_note": c["note"],
        "technique": c["technique"] + "; thorough tier adds a sensitivity self-test of these rules (one-site breaking variants, confirmed "
                     "sub-agent-seeded changes and behaviour-preserving refactorings applied to a scratch copy of the tree, compiled by the driver and analysed, never executed)",
    })
m = {
    "version": 1,
    "setup_cmd": "./setup.sh",
    "hooks": {
        "guard": "anda_db_verif",
        "enable": "none needed: the analysis reads rustc MIR of the unmodified sources (RUSTC_WORKSPACE_WRAPPER=mirfacts under cargo +nightly check)",
        "baseline_off_cmd": "cd /repo && cargo nextest run --workspace --no-fail-fast --test-threads 8 --offline || (cd /repo && cargo test --workspace --no-fail-fast --offline)",
        "source_commits": [],
        "add_only": True,
    },
    "engines": [
        {"name": "mirfacts", "path": "/verif/mirfacts", "serves_properties": sorted(CLAIMED),
         "kind_free_text": "rustc_private driver (nightly) dumping MIR-as-built, resolved callees, ADT and const facts per workspace crate"},
        {"name": "rules", "path": "/verif/rules", "serves_properties": sorted(CLAIMED),
         "kind_free_text": "Python rule engine over the fact files: CFG dominance / must-pass-through, guard liveness dataflow, call-graph effect reachability, def-use slicing, path-sensitive small-domain value flow, table agreement; helpers absent from the pinned tree are inlined (lib/inline.py)"},
        {"name": "selftest", "path": "/verif/lib/selftest.py", "serves_properties": sorted(CLAIMED),
         "kind_free_text": "thorough tier: mutation-adequacy and false-alarm controls of the rule engine on a scratch copy of the current tree (selftest/*.json, seeded/*/patch.diff, benign/*/r*.diff)"},
    ],
    "checks": checks,
    "notes": "Technique family: static analysis only. Every check re-extracts MIR facts from /repo's working tree when any source file changed (content hashes), fails closed (exit 2) when an anchor is missing. 51 genuine defects were found and repaired in /repo (47 `fix:` commits, listed in DESIGN.md section 8 and, with the failing input of each, under `fixed` in known_findings.json); most were reproduced first by audit sub-agents that were given only a property text (every claimed property was audited), then turned into a structural rule that reports the pre-fix tree. Four defects are recorded as open known findings reported by a rule (C05 x2, C14, C19 - repairs that are design decisions) and fourteen are listed as demonstrated only (C03 x2, C07 x2, C09 x3, C10, C12, C13 x2, C19 x3: no sound static necessary condition; printed as KNOWN-FINDING lines, they suppress nothing). See DESIGN.md (section 11 for seeded changes and benign controls) and RULES.md.",
    "not_applicable": [{"property_id": k, "reason": v} for k, v in sorted(NA.items())],
}
json.dump(m, open(os.path.join(V, "MANIFEST.json"), "w"), indent=1)
print("claimed", sorted(CLAIMED), "n/a", sorted(NA))
