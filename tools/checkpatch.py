#!/usr/bin/env python3
"""dev helper: apply a patch to a scratch copy of /repo (never /repo itself) and run the quick rules of the given
properties (default: all claimed) on it.  usage: checkpatch.py <patch.diff> [PROP ...]"""
import json, os, sys
VERIF = os.path.dirname(os.path.dirname(os.path.abspath(__file__)))
sys.path.insert(0, VERIF)
from lib import selftest
patch = os.path.abspath(sys.argv[1])
props = [p.upper() for p in sys.argv[2:]] or [c["property_id"] for c in json.load(open(os.path.join(VERIF, "MANIFEST.json")))["checks"]]
props = sorted(set(props))
sc = selftest.Scratch()
try:
    ok, why, undo = sc.apply({"kind": "patch", "patch": patch})
    if not ok:
        print("patch does not apply:", why); sys.exit(3)
    for p in props:
        rc, keys, out = sc.check(p)
        if rc == 0:
            print("%s: pass" % p)
        elif rc == 1:
            print("%s: VIOLATION" % p)
            for k in keys: print("    " + k)
            for l in out.splitlines():
                if l.startswith("      "): print("  " + l)
        else:
            print("%s: rc=%d\n%s" % (p, rc, "\n".join(out.strip().splitlines()[-8:])))
finally:
    sc.close()
