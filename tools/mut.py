#!/usr/bin/env python3
"""dev/self-test helper: apply one textual mutation to /repo, run checks, restore.
usage: mut.py <relpath> <old> <new> <PROP>[,<PROP>...] [--count N]"""
import subprocess, sys, os
rel, old, new, props = sys.argv[1:5]
p = os.path.join("/repo", rel)
src = open(p).read()
n = src.count(old)
idx = 0
if "--nth" in sys.argv:
    idx = int(sys.argv[sys.argv.index("--nth") + 1])
if n == 0:
    print("pattern not found"); sys.exit(3)
parts = src.split(old)
mutated = old.join(parts[:idx + 1]) + new + old.join(parts[idx + 1:])
open(p, "w").write(mutated)
try:
    for pr in props.split(","):
        r = subprocess.run(["/verif/check", pr], stdout=subprocess.PIPE, stderr=subprocess.STDOUT, text=True)
        lines = [l for l in r.stdout.splitlines() if l.startswith(("VIOLATION", "  violated", "CHECKER-FAULT", "      ")) or "FACTS ERROR" in l or "error" in l.lower()]
        print("== %s exit=%d" % (pr, r.returncode))
        print("\n".join(lines[:30]))
finally:
    subprocess.run(["git", "-C", "/repo", "checkout", "--", rel])
