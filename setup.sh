#!/bin/sh
# Builds the mirfacts driver and warms the dependency build (offline, from files on disk only).
set -e
cd "$(dirname "$0")"
export CARGO_NET_OFFLINE=true
(cd mirfacts && cargo build --release --offline)
python3 lib/facts.py
