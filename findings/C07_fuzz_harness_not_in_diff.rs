//! Differential fuzzer: wrapper vs reference InMemory (exploration harness).

use anda_object_store::{EncryptedStoreBuilder, MetaStoreBuilder};
use bytes::Bytes;
use chrono::{DateTime, Duration, Utc};
use futures::TryStreamExt;
use object_store::{memory::InMemory, path::Path, *};
use std::collections::HashMap;
use std::sync::Arc;

struct Rng(u64);
impl Rng {
    fn next(&mut self) -> u64 {
        let mut x = self.0;
        x ^= x >> 12;
        x ^= x << 25;
        x ^= x >> 27;
        self.0 = x;
        x.wrapping_mul(0x2545F4914F6CDD1D)
    }
    fn below(&mut self, n: u64) -> u64 {
        self.next() % n
    }
    fn pick<T: Clone>(&mut self, xs: &[T]) -> T {
        xs[self.below(xs.len() as u64) as usize].clone()
    }
    fn chance(&mut self, pct: u64) -> bool {
        self.below(100) < pct
    }
}

#[derive(Debug, PartialEq, Clone)]
enum Kind {
    NotFound,
    AlreadyExists,
    Precondition,
    NotModified,
    Generic,
    Other(String),
}

fn kind(e: &Error) -> Kind {
    match e {
        Error::NotFound { .. } => Kind::NotFound,
        Error::AlreadyExists { .. } => Kind::AlreadyExists,
        Error::Precondition { .. } => Kind::Precondition,
        Error::NotModified { .. } => Kind::NotModified,
        Error::Generic { .. } => Kind::Generic,
        e => Kind::Other(format!("{e:?}")),
    }
}

type Dyn = Arc<dyn ObjectStore>;

#[derive(Default)]
struct Tokens {
    r2w: HashMap<String, String>,
    w2r: HashMap<String, String>,
    pairs: Vec<(String, String)>,
}

impl Tokens {
    fn observe(&mut self, r: &Option<String>, w: &Option<String>, ctx: &str) -> Result<(), String> {
        let (Some(r), Some(w)) = (r, w) else {
            return Err(format!("{ctx}: missing token ref={r:?} wrap={w:?}"));
        };
        if let Some(prev) = self.r2w.get(r) {
            if prev != w {
                return Err(format!(
                    "{ctx}: commit {r} reported with two tokens {prev} and {w}"
                ));
            }
        } else {
            if let Some(prev_r) = self.w2r.get(w) {
                return Err(format!(
                    "{ctx}: wrapper token {w} repeats for commits {prev_r} and {r}"
                ));
            }
            self.r2w.insert(r.clone(), w.clone());
            self.w2r.insert(w.clone(), r.clone());
            self.pairs.push((r.clone(), w.clone()));
        }
        Ok(())
    }
}

fn payload(rng: &mut Rng, size: usize) -> Bytes {
    if rng.chance(50) {
        let b = rng.below(2) as u8;
        Bytes::from(vec![b; size])
    } else {
        let mut v = Vec::with_capacity(size);
        for _ in 0..size {
            v.push(rng.next() as u8);
        }
        Bytes::from(v)
    }
}

fn sizes(chunk: usize) -> Vec<usize> {
    let mut v = vec![0, 1, 2, chunk, chunk + 1, 2 * chunk, 2 * chunk + 1, 3 * chunk];
    if chunk > 1 {
        v.push(chunk - 1);
        v.push(2 * chunk - 1);
    }
    v
}

async fn run(
    seed: u64,
    steps: usize,
    chunk: usize,
    build: &dyn Fn(Dyn) -> Dyn,
    mask_known: bool,
) -> Result<(), String> {
    let mut rng = Rng(seed.wrapping_mul(0x9E3779B97F4A7C15) | 1);
    let reference: Dyn = Arc::new(InMemory::new());
    let local = std::env::var("AUDIT_LOCAL").is_ok();
    let dir = tempfile::tempdir().unwrap();
    let backend: Dyn = if local {
        Arc::new(object_store::local::LocalFileSystem::new_with_prefix(dir.path()).unwrap())
    } else {
        Arc::new(InMemory::new())
    };
    let mut wrap = build(backend.clone());
    let names: &[&str] = if local {
        &["a/q", "a/b/d", "a/b/c", "a/c", "b/y", "ab", "b/x"]
    } else {
        &["a", "a/b", "a/b/c", "a/c", "b", "ab", "b/x"]
    };
    let keys: Vec<Path> = names
        .iter()
        .map(|s| Path::from(*s))
        .collect();
    let prefixes: Vec<Option<Path>> = vec![
        None,
        Some(Path::from("a")),
        Some(Path::from("a/b")),
        Some(Path::from("b")),
        Some(Path::from("zz")),
        Some(Path::from("a/b/c")),
    ];
    let szs = sizes(chunk);
    let mut tok = Tokens::default();
    let mut log: Vec<String> = Vec::new();

    macro_rules! fail {
        ($($arg:tt)*) => {{
            let msg = format!($($arg)*);
            let tail: Vec<_> = log.iter().rev().take(12).rev().cloned().collect();
            return Err(format!("seed {seed} chunk {chunk}: {msg}\n  history:\n    {}", tail.join("\n    ")));
        }};
    }

    for step in 0..steps {
        if rng.chance(3) {
            // cold metadata cache
            wrap = build(backend.clone());
            log.push(format!("{step}: REBUILD"));
        }
        let op = rng.below(13);
        let key = rng.pick(&keys);
        match op {
            0 | 1 | 2 => {
                // put
                let size = rng.pick(&szs);
                let data = payload(&mut rng, size);
                let mode_sel = rng.below(8);
                let (mr, mw, desc) = match mode_sel {
                    0 | 1 | 2 => (PutMode::Overwrite, PutMode::Overwrite, "overwrite".to_string()),
                    3 => (PutMode::Create, PutMode::Create, "create".to_string()),
                    4 | 5 => {
                        // current token of key, if any
                        let r = reference.head(&key).await.ok().and_then(|m| m.e_tag);
                        let w = wrap.head(&key).await.ok().and_then(|m| m.e_tag);
                        match (r, w) {
                            (Some(r), Some(w)) => (
                                PutMode::Update(UpdateVersion { e_tag: Some(r), version: None }),
                                PutMode::Update(UpdateVersion { e_tag: Some(w), version: None }),
                                "update(current)".to_string(),
                            ),
                            _ => (
                                PutMode::Update(UpdateVersion { e_tag: Some("nope".into()), version: None }),
                                PutMode::Update(UpdateVersion { e_tag: Some("nope".into()), version: None }),
                                "update(foreign)".to_string(),
                            ),
                        }
                    }
                    6 => {
                        if tok.pairs.is_empty() {
                            (PutMode::Overwrite, PutMode::Overwrite, "overwrite".to_string())
                        } else {
                            let (r, w) = rng.pick(&tok.pairs);
                            (
                                PutMode::Update(UpdateVersion { e_tag: Some(r.clone()), version: None }),
                                PutMode::Update(UpdateVersion { e_tag: Some(w), version: None }),
                                format!("update(history {r})"),
                            )
                        }
                    }
                    _ => (
                        PutMode::Update(UpdateVersion { e_tag: Some("nope".into()), version: None }),
                        PutMode::Update(UpdateVersion { e_tag: Some("nope".into()), version: None }),
                        "update(foreign)".to_string(),
                    ),
                };
                log.push(format!("{step}: put {key} size {size} {desc}"));
                let rr = reference
                    .put_opts(&key, data.clone().into(), PutOptions { mode: mr, ..Default::default() })
                    .await;
                let rw = wrap
                    .put_opts(&key, data.clone().into(), PutOptions { mode: mw, ..Default::default() })
                    .await;
                match (&rr, &rw) {
                    (Ok(a), Ok(b)) => {
                        if let Err(e) = tok.observe(&a.e_tag, &b.e_tag, "put result") {
                            fail!("{e}");
                        }
                    }
                    (Err(a), Err(b)) if kind(a) == kind(b) => {}
                    _ => fail!("put diverged: ref={rr:?} wrap={rw:?}"),
                }
            }
            3 => {
                // multipart
                let n = rng.below(4) as usize;
                let mut parts = Vec::new();
                for _ in 0..n {
                    let size = rng.pick(&szs);
                    parts.push(payload(&mut rng, size));
                }
                log.push(format!(
                    "{step}: multipart {key} parts {:?}",
                    parts.iter().map(|p| p.len()).collect::<Vec<_>>()
                ));
                let mut ur = reference.put_multipart(&key).await.unwrap();
                let mut uw = match wrap.put_multipart(&key).await {
                    Ok(u) => u,
                    Err(e) => fail!("multipart start failed: {e:?}"),
                };
                for p in &parts {
                    ur.put_part(p.clone().into()).await.unwrap();
                    if let Err(e) = uw.put_part(p.clone().into()).await {
                        fail!("put_part failed: {e:?}");
                    }
                }
                if rng.chance(15) {
                    ur.abort().await.unwrap();
                    if let Err(e) = uw.abort().await {
                        fail!("abort failed: {e:?}");
                    }
                    log.push(format!("{step}: (aborted)"));
                } else {
                    let a = ur.complete().await;
                    let b = uw.complete().await;
                    match (&a, &b) {
                        (Ok(a), Ok(b)) => {
                            if let Err(e) = tok.observe(&a.e_tag, &b.e_tag, "multipart result") {
                                fail!("{e}");
                            }
                        }
                        _ => fail!("multipart complete diverged: ref={a:?} wrap={b:?}"),
                    }
                }
            }
            4 | 5 | 6 => {
                // get_opts
                let mut or = GetOptions::default();
                let mut ow = GetOptions::default();
                let mut desc = String::new();
                // range
                match rng.below(6) {
                    0 => {}
                    1 => {
                        let s = rng.pick(&szs) as u64;
                        let e = s + rng.pick(&szs) as u64;
                        let s = s.saturating_sub(rng.below(2));
                        or.range = Some(GetRange::Bounded(s..e));
                        ow.range = Some(GetRange::Bounded(s..e));
                        desc += &format!(" range {s}..{e}");
                    }
                    2 => {
                        let s = rng.below(3 * chunk as u64 + 2);
                        let e = s + 1 + rng.below(2 * chunk as u64 + 2);
                        or.range = Some(GetRange::Bounded(s..e));
                        ow.range = Some(GetRange::Bounded(s..e));
                        desc += &format!(" range {s}..{e}");
                    }
                    3 => {
                        let s = rng.pick(&szs) as u64;
                        or.range = Some(GetRange::Offset(s));
                        ow.range = Some(GetRange::Offset(s));
                        desc += &format!(" offset {s}");
                    }
                    4 => {
                        let s = rng.pick(&szs) as u64;
                        or.range = Some(GetRange::Suffix(s));
                        ow.range = Some(GetRange::Suffix(s));
                        desc += &format!(" suffix {s}");
                    }
                    _ => {
                        let s = rng.below(3 * chunk as u64 + 2);
                        or.range = Some(GetRange::Suffix(s));
                        ow.range = Some(GetRange::Suffix(s));
                        desc += &format!(" suffix {s}");
                    }
                }
                let hr = reference.head(&key).await.ok();
                let hw = wrap.head(&key).await.ok();
                let cur = match (&hr, &hw) {
                    (Some(a), Some(b)) => Some((a.e_tag.clone().unwrap(), b.e_tag.clone().unwrap())),
                    _ => None,
                };
                let mut token_expr = |rng: &mut Rng| -> (String, String, String) {
                    match rng.below(6) {
                        0 => ("*".into(), "*".into(), "*".into()),
                        1 => ("nope".into(), "nope".into(), "nope".into()),
                        2 | 3 => match &cur {
                            Some((r, w)) => (r.clone(), w.clone(), "current".into()),
                            None => ("nope".into(), "nope".into(), "nope".into()),
                        },
                        4 => match &cur {
                            Some((r, w)) => (
                                format!("nope, {r}"),
                                format!("nope, {w}"),
                                "list(nope,current)".into(),
                            ),
                            None => ("nope,x".into(), "nope,x".into(), "nope,x".into()),
                        },
                        _ => {
                            if tok.pairs.is_empty() {
                                ("nope".into(), "nope".into(), "nope".into())
                            } else {
                                let (r, w) = rng.pick(&tok.pairs);
                                (r.clone(), w, format!("history {r}"))
                            }
                        }
                    }
                };
                if rng.chance(35) {
                    let (r, w, d) = token_expr(&mut rng);
                    or.if_match = Some(r);
                    ow.if_match = Some(w);
                    desc += &format!(" if_match={d}");
                }
                if rng.chance(35) {
                    let (r, w, d) = token_expr(&mut rng);
                    or.if_none_match = Some(r);
                    ow.if_none_match = Some(w);
                    desc += &format!(" if_none_match={d}");
                }
                let date = |rng: &mut Rng, m: &Option<ObjectMeta>| -> (DateTime<Utc>, i64) {
                    let d = rng.pick(&[-1i64, 0, 1]);
                    let base = m.as_ref().map(|m| m.last_modified).unwrap_or_else(Utc::now);
                    (base + Duration::seconds(d), d)
                };
                if rng.chance(30) {
                    let mut r2 = Rng(rng.next() | 1);
                    let mut r3 = Rng(r2.0);
                    let (a, d) = date(&mut r2, &hr);
                    let (b, _) = date(&mut r3, &hw);
                    or.if_modified_since = Some(a);
                    ow.if_modified_since = Some(b);
                    desc += &format!(" if_modified_since=lm{d:+}");
                }
                if rng.chance(30) {
                    let mut r2 = Rng(rng.next() | 1);
                    let mut r3 = Rng(r2.0);
                    let (a, d) = date(&mut r2, &hr);
                    let (b, _) = date(&mut r3, &hw);
                    or.if_unmodified_since = Some(a);
                    ow.if_unmodified_since = Some(b);
                    desc += &format!(" if_unmodified_since=lm{d:+}");
                }
                let head = rng.chance(15);
                or.head = head;
                ow.head = head;
                if head {
                    desc += " head";
                }
                log.push(format!("{step}: get {key}{desc}"));
                let a = reference.get_opts(&key, or).await;
                let b = wrap.get_opts(&key, ow).await;
                match (a, b) {
                    (Ok(a), Ok(b)) => {
                        let (ma, mb) = (a.meta.clone(), b.meta.clone());
                        let (ra, rb) = (a.range.clone(), b.range.clone());
                        let ba = a.bytes().await.unwrap();
                        let bb = match b.bytes().await {
                            Ok(x) => x,
                            Err(e) => fail!("wrapper body read failed: {e:?}"),
                        };
                        if ma.size != mb.size || ma.location != mb.location {
                            fail!("get meta diverged: ref={ma:?} wrap={mb:?}");
                        }
                        if let Err(e) = tok.observe(&ma.e_tag, &mb.e_tag, "get meta") {
                            fail!("{e}");
                        }
                        if let Some(hw) = &hw {
                            if hw.last_modified != mb.last_modified || hw.size != mb.size {
                                fail!("get vs head inconsistent: {hw:?} vs {mb:?}");
                            }
                        }
                        if !(head && mask_known) {
                            if ra != rb {
                                fail!("get range diverged: ref={ra:?} wrap={rb:?}");
                            }
                            if ba != bb {
                                fail!("get bytes diverged: ref len {} wrap len {}", ba.len(), bb.len());
                            }
                        }
                    }
                    (Err(a), Err(b)) if kind(&a) == kind(&b) => {}
                    (a, b) => fail!(
                        "get diverged: ref={:?} wrap={:?}",
                        a.map(|x| x.meta).map_err(|e| kind(&e)),
                        b.map(|x| x.meta).map_err(|e| format!("{e:?}"))
                    ),
                }
            }
            7 => {
                // get_ranges
                let n = rng.below(4) as usize;
                let mut ranges = Vec::new();
                for _ in 0..n {
                    let s = rng.below(3 * chunk as u64 + 2);
                    let e = s + rng.below(2 * chunk as u64 + 2);
                    ranges.push(s..e);
                }
                log.push(format!("{step}: get_ranges {key} {ranges:?}"));
                let a = reference.get_ranges(&key, &ranges).await;
                let b = wrap.get_ranges(&key, &ranges).await;
                match (&a, &b) {
                    (Ok(a), Ok(b)) if a == b => {}
                    (Err(a), Err(b)) if kind(a) == kind(b) => {}
                    _ => {
                        if mask_known {
                            // known: wrappers reject end > len / empty list on missing key
                            let len = reference.head(&key).await.map(|m| m.size).unwrap_or(0);
                            let known = ranges.is_empty() || ranges.iter().any(|r| r.end > len);
                            if known {
                                continue;
                            }
                        }
                        fail!(
                            "get_ranges diverged: ref={:?} wrap={:?}",
                            a.as_ref().map(|v| v.iter().map(|b| b.len()).collect::<Vec<_>>()).map_err(kind),
                            b.as_ref().map(|v| v.iter().map(|b| b.len()).collect::<Vec<_>>()).map_err(|e| format!("{e:?}"))
                        )
                    }
                }
            }
            8 => {
                // listings
                let prefix = rng.pick(&prefixes);
                let which = rng.below(3);
                log.push(format!("{step}: list[{which}] {prefix:?}"));
                let conv = |v: Vec<ObjectMeta>| v;
                let (la, lb, cpa, cpb) = match which {
                    0 => {
                        let a: Vec<ObjectMeta> = reference.list(prefix.as_ref()).try_collect().await.unwrap();
                        let b: Vec<ObjectMeta> = match wrap.list(prefix.as_ref()).try_collect().await {
                            Ok(b) => b,
                            Err(e) => fail!("list failed {e:?}"),
                        };
                        (conv(a), conv(b), vec![], vec![])
                    }
                    1 => {
                        let off = rng.pick(&keys);
                        log.push(format!("{step}:   offset {off}"));
                        let a: Vec<ObjectMeta> = reference
                            .list_with_offset(prefix.as_ref(), &off)
                            .try_collect()
                            .await
                            .unwrap();
                        let b: Vec<ObjectMeta> = match wrap
                            .list_with_offset(prefix.as_ref(), &off)
                            .try_collect()
                            .await
                        {
                            Ok(b) => b,
                            Err(e) => fail!("list failed {e:?}"),
                        };
                        (a, b, vec![], vec![])
                    }
                    _ => {
                        let a = reference.list_with_delimiter(prefix.as_ref()).await.unwrap();
                        let b = match wrap.list_with_delimiter(prefix.as_ref()).await {
                            Ok(b) => b,
                            Err(e) => fail!("list failed {e:?}"),
                        };
                        (a.objects, b.objects, a.common_prefixes, b.common_prefixes)
                    }
                };
                let (mut la, mut lb) = (la, lb);
                if local {
                    la.sort_by(|a, b| a.location.cmp(&b.location));
                    lb.sort_by(|a, b| a.location.cmp(&b.location));
                }
                if cpa != cpb && !local {
                    fail!("common prefixes diverged: {cpa:?} vs {cpb:?}");
                }
                let sa: Vec<_> = la.iter().map(|m| (m.location.clone(), m.size)).collect();
                let sb: Vec<_> = lb.iter().map(|m| (m.location.clone(), m.size)).collect();
                if sa != sb {
                    fail!("listing diverged: {sa:?} vs {sb:?}");
                }
                for (a, b) in la.iter().zip(lb.iter()) {
                    if let Err(e) = tok.observe(&a.e_tag, &b.e_tag, "listing") {
                        fail!("{e}");
                    }
                    let h = wrap.head(&b.location).await.unwrap();
                    if h.last_modified != b.last_modified {
                        fail!("list vs head timestamp: {h:?} vs {b:?}");
                    }
                }
            }
            9 => {
                log.push(format!("{step}: delete {key}"));
                let a = reference.delete(&key).await;
                let b = wrap.delete(&key).await;
                match (&a, &b) {
                    (Ok(()), Ok(())) => {}
                    (Ok(()), Err(Error::NotFound { .. })) if mask_known => {}
                    _ => fail!("delete diverged: {a:?} vs {b:?}"),
                }
            }
            10 | 11 => {
                let to = rng.pick(&keys);
                let create = rng.chance(40);
                let rename = op == 11;
                if rename && key == to && mask_known {
                    continue;
                }
                log.push(format!(
                    "{step}: {} {key} -> {to} create={create}",
                    if rename { "rename" } else { "copy" }
                ));
                let (a, b) = if rename {
                    let m = if create { RenameTargetMode::Create } else { RenameTargetMode::Overwrite };
                    (
                        reference.rename_opts(&key, &to, RenameOptions::new().with_target_mode(m)).await,
                        wrap.rename_opts(&key, &to, RenameOptions::new().with_target_mode(m)).await,
                    )
                } else {
                    let m = if create { CopyMode::Create } else { CopyMode::Overwrite };
                    (
                        reference.copy_opts(&key, &to, CopyOptions::new().with_mode(m)).await,
                        wrap.copy_opts(&key, &to, CopyOptions::new().with_mode(m)).await,
                    )
                };
                match (&a, &b) {
                    (Ok(()), Ok(())) => {
                        let ha = reference.head(&to).await;
                        let hb = wrap.head(&to).await;
                        match (ha, hb) {
                            (Ok(ha), Ok(hb)) => {
                                if let Err(e) = tok.observe(&ha.e_tag, &hb.e_tag, "copy/rename target") {
                                    fail!("{e}");
                                }
                            }
                            (Err(_), Err(_)) => {}
                            (ha, hb) => fail!("post copy head diverged {ha:?} {hb:?}"),
                        }
                    }
                    (Err(a), Err(b)) if kind(a) == kind(b) => {}
                    _ => fail!("copy/rename diverged: {a:?} vs {b:?}"),
                }
            }
            _ => {
                // full state check
                log.push(format!("{step}: state check"));
                for k in &keys {
                    let a = reference.get(k).await;
                    let b = wrap.get(k).await;
                    match (a, b) {
                        (Ok(a), Ok(b)) => {
                            let (ma, mb) = (a.meta.clone(), b.meta.clone());
                            if let Err(e) = tok.observe(&ma.e_tag, &mb.e_tag, "state check") {
                                fail!("{e}");
                            }
                            let ba = a.bytes().await.unwrap();
                            let bb = b.bytes().await.unwrap();
                            if ba != bb {
                                fail!("state bytes diverged for {k}");
                            }
                        }
                        (Err(a), Err(b)) if kind(&a) == kind(&b) => {}
                        (a, b) => fail!(
                            "state diverged for {k}: {:?} vs {:?}",
                            a.map(|x| x.meta).map_err(|e| kind(&e)),
                            b.map(|x| x.meta).map_err(|e| kind(&e))
                        ),
                    }
                }
            }
        }
    }
    Ok(())
}

fn meta_builder(b: Dyn) -> Dyn {
    Arc::new(MetaStoreBuilder::new(b, 1000).build())
}

fn enc_builder(chunk: u64) -> impl Fn(Dyn) -> Dyn {
    move |b: Dyn| -> Dyn {
        Arc::new(
            EncryptedStoreBuilder::with_secret(b, 1000, [7u8; 32])
                .with_chunk_size(chunk)
                .build(),
        )
    }
}

fn mask() -> bool {
    std::env::var("AUDIT_MASK").map(|v| v == "1").unwrap_or(false)
}

#[tokio::test]
async fn fuzz_meta_store() {
    let mut failures = Vec::new();
    for seed in 1..=60u64 {
        if let Err(e) = run(seed, 400, 7, &meta_builder, mask()).await {
            failures.push(e);
        }
    }
    for f in failures.iter().take(8) {
        println!("{f}\n");
    }
    assert!(failures.is_empty(), "{} failing seeds", failures.len());
}

#[tokio::test]
async fn fuzz_encrypted_store() {
    let mut failures = Vec::new();
    for chunk in [1usize, 7, 16, 65536] {
        let seeds = if chunk == 65536 { 6 } else { 40 };
        let steps = if chunk == 65536 { 150 } else { 400 };
        let b = enc_builder(chunk as u64);
        for seed in 1..=seeds {
            if let Err(e) = run(seed, steps, chunk, &b, mask()).await {
                failures.push(e);
            }
        }
    }
    for f in failures.iter().take(8) {
        println!("{f}\n");
    }
    assert!(failures.is_empty(), "{} failing seeds", failures.len());
}

#[tokio::test]
async fn probe_minor() {
    let reference: Dyn = Arc::new(InMemory::new());
    let stores: Vec<(&str, Dyn)> = vec![
        ("ref", reference),
        ("meta", meta_builder(Arc::new(InMemory::new()))),
        ("enc", enc_builder(7)(Arc::new(InMemory::new()))),
    ];
    for (name, s) in stores {
        let k = Path::from("k");
        s.put(&k, Bytes::from_static(b"0123456789").into()).await.unwrap();
        let r = s.get_opts(&k, GetOptions { head: true, ..Default::default() }).await.unwrap();
        let range = r.range.clone();
        let n = r.bytes().await.unwrap().len();
        let u = s
            .put_opts(&k, Bytes::from_static(b"x").into(), PutOptions { mode: PutMode::Update(UpdateVersion { e_tag: None, version: None }), ..Default::default() })
            .await
            .map_err(|e| kind(&e));
        let sr = s.rename(&k, &k).await.map_err(|e| kind(&e));
        let after = s.head(&k).await.map(|m| m.size).map_err(|e| kind(&e));
        println!("{name}: head range {range:?} bytes {n}; update(no etag) {u:?}; self-rename {sr:?} then head {after:?}");
    }
}
