"""C09 — encrypted store: tampering detected, plaintext never reaches the backend.  (DESIGN §4 C09)"""
import re

from lib import core, valueflow
from lib.report import CheckerFault
from . import ostore
from .c01 import _result_used
from .c07 import Fresh, _places
from .c08 import find_body

EXPLAIN = (
    "Static analysis over rustc MIR of anda_object_store::encryption: R09.1 every field of the encrypted Metadata document except the two authentication fields is read by "
    "metadata_auth_aad (a new field that is not bound is reported), chunk_aad binds both its parameters, and the AAD operand of every encrypt/decrypt call slices back to the right AAD "
    "builder; R09.2 metadata authentication dominates every backend payload read and every commit that reuses a document, its Err edge reaches neither, and encryption.rs never uses the "
    "unchecked listing policy (positive control: lib.rs does); R09.3 the nonce operand of every encryption derives from derive_gcm_nonce over a base drawn by rand_bytes() for this write "
    "(never from a stored document) and the uploader advances its counter between two derivations; R09.4 no backend write operand flows directly from the caller's payload, and each "
    "written buffer passed an encrypting chunks_mut loop first; R09.5 no Result of encrypt/decrypt/verify/AAD construction is discarded and decrypt tags come from a checked lookup. "
    "Not decided: cryptographic strength, byte-level tamper outcomes, truncation arithmetic.")

ENC = "anda_object_store::encryption"
ENCRYPT_RX = r"AeadInOut::encrypt_inout_detached$|encrypt_inout_detached$"
DECRYPT_RX = r"AeadInOut::decrypt_inout_detached$|decrypt_inout_detached$"


def enc_fns(prog):
    return [f for f in prog.fns.values() if f.crate == "anda_object_store" and f.file.endswith("encryption.rs")]


def origin_calls(f, op, through=None):
    if through is None:
        through = lambda ev: ev.callee in core.TRANSPARENT or ev.callee.endswith("Nonce::from") or "convert::From" in ev.callee or ev.callee.endswith("::as_slice")
    return {o[1].name for o in f.slice_back_op(op, through=through) if o[0] == "call"}


def run(rep, tier):
    prog = ostore.load()
    rep.not_decided = "cryptographic strength; that no modification yields different plaintext (byte level); truncation arithmetic; every chunk (not just the loop) encrypted"
    rep.assumptions = ["rustc MIR", "AES-GCM detects forgery", "rand_bytes() is fresh per call"]
    fns = enc_fns(prog)
    events = ostore.backend_events(prog)

    # ------------------------------------------------------------------ R09.1 AAD completeness
    rep.rule("R09.1", "metadata_auth_aad binds every Metadata field except auth_nonce/auth_tag; chunk_aad binds both parameters; every AEAD call takes its AAD from the right builder", floor=12)
    adt = prog.adt(ENC + "::Metadata")
    fields = [fd["name"] for fd in adt["variants"][0]["fields"]]
    aad = prog.fn(ENC + "::metadata_auth_aad")
    rep.saw(aad, len(aad.events))
    read = set()
    for b in aad.live_blocks():
        for st in aad.stmts(b):
            if st[0] == "A":
                for pl in _places(st[2]):
                    for e in (pl.get("p") or []):
                        if isinstance(e, dict) and e.get("n") in fields:
                            read.add(e["n"])
    # every read must actually reach the output buffer: the value flows (by &mut) into the returned Vec
    for fd in fields:
        if fd in ("auth_nonce", "auth_tag"):
            rep.ob("R09.1", "aad-excludes|%s" % fd, fd not in read, "the authentication fields themselves are not part of the AAD", aad.file + ":%d" % aad.line)
            continue
        rep.ob("R09.1", "aad-binds|%s" % fd, fd in read,
               "field `%s` of the encrypted Metadata document is not bound into the authentication AAD (it could be changed without detection)" % fd, aad.file + ":%d" % aad.line)
    # the location parameter is bound too
    der = aad.derived_locals([1], mut_args=True)
    rep.ob("R09.1", "aad-binds|location", 0 in der or _flows_to_return(aad, der), "the logical path is bound into the metadata AAD", aad.file + ":%d" % aad.line)
    ca = prog.fn(ENC + "::chunk_aad")
    for i, nm in ((1, "chunk_size"), (2, "chunk_index")):
        der = ca.derived_locals([i], mut_args=True)
        rep.ob("R09.1", "chunk-aad-binds|%s" % nm, _flows_to_return(ca, der), "chunk_aad binds its %s parameter" % nm, ca.file + ":%d" % ca.line)
    nenc = ndec = 0
    for f in fns:
        for e in f.calls_named(ENCRYPT_RX):
            nenc += 1
            rep.saw(f, 1)
            oc = origin_calls(f, e.args[2])
            outer = prog.outer_fn(f).path.replace("anda_object_store::", "")
            want = "metadata_auth_aad" if outer.endswith("seal_metadata") else "chunk_aad"
            rep.ob("R09.1", "encrypt-aad|%s" % outer, any(n.endswith("::" + want) for n in oc), "the AAD of this encryption must come from %s (got %s)" % (want, sorted(n.rsplit('::', 1)[1] for n in oc)), e.where())
        for e in f.calls_named(DECRYPT_RX):
            ndec += 1
            rep.saw(f, 1)
            oc = origin_calls(f, e.args[2])
            outer = prog.outer_fn(f).path.replace("anda_object_store::", "")
            want = "metadata_auth_aad" if outer.endswith("verify_metadata") else "chunk_aad_for_meta"
            rep.ob("R09.1", "decrypt-aad|%s" % outer, any(n.endswith("::" + want) for n in oc), "the AAD of this decryption must come from %s" % want, e.where())
    rep.ob("R09.1", "aead-sites", nenc >= 4 and ndec >= 4, "anchor: %d encrypt and %d decrypt sites found" % (nenc, ndec), ENC)

    # ------------------------------------------------------------------ R09.2 verify before use
    rep.rule("R09.2", "metadata authentication dominates every backend payload read / reuse of a stored document; unchecked listing policy never used by the encrypted store; Legacy answer only when every marker of the authenticated layout is absent", floor=12)
    VER = r"EncryptedStore::<T>::verify_metadata$|encryption::verify_metadata$|EncryptedStore::<T>::verified_metadata$"
    for method in ("get_opts", "get_ranges"):
        f = ostore.wrapper_fn(prog, "EncryptedStore", method)
        rep.saw(f, len(f.events))
        reads = [e for (ff, e, m) in events if ff is f and m in ostore.READ_METHODS]
        ver = f.calls_named(VER)
        okv, errv = set(), set()
        for v in ver:
            o, r = f.result_edges(v)
            okv |= set(o)
            errv |= set(r)
        gm = f.calls_named(r"SidecarStore::<T, M>::get_meta$")
        ok = bool(reads) and bool(okv) and all(f.must_pass(okv, [r.block], start=g.block) for r in reads for g in gm) and not any(f.reachable_from([t]) & {r.block for r in reads} for t in errv)
        rep.ob("R09.2", "verify-before-read|%s" % method, ok, "every backend payload read follows a successful verify_metadata of the document resolved in this iteration", (reads[0].where() if reads else f.file))
        # decryption stream / decrypt calls only after verification as well
        dec = f.calls_named(DECRYPT_RX, r"encryption::create_decryption_stream$")
        rep.ob("R09.2", "verify-before-decrypt|%s" % method, bool(dec) and f.must_pass(okv, [d.block for d in dec]), "decryption uses only an authenticated document", (dec[0].where() if dec else f.file))
    f = ostore.wrapper_fn(prog, "EncryptedStore", "rename_opts")
    rep.saw(f, len(f.events))
    ver = f.calls_named(VER)
    csr = f.calls_named(r"SidecarStore::<T, M>::check_self_rename$")
    okv = set()
    for v in ver:
        okv |= set(f.result_edges(v)[0])
    rep.ob("R09.2", "verify-before-self-rename|rename_opts", bool(csr) and bool(okv) and f.must_pass(okv, [c.block for c in csr]), "a self-rename authenticates the document first", (csr[0].where() if csr else f.file))
    # copy: the verify closure handed to copy_payload authenticates the source
    f = ostore.wrapper_fn(prog, "EncryptedStore", "copy_opts")
    rep.saw(f, len(f.events))
    cp = f.calls_named(r"SidecarStore::<T, M>::copy_payload$")
    ok = False
    for c in cp:
        for a in c.args:
            for o in f.slice_back_op(a):
                if o[0] == "create" and o[1].cid in prog.fns:
                    k = prog.fns[o[1].cid]
                    vv = k.calls_named(VER)
                    if vv and all(k.result_edges(v)[1] for v in vv):
                        ok = True
    rep.ob("R09.2", "verify-closure|copy_opts", ok, "the verify callback passed to copy_payload calls verify_metadata and propagates its error", (cp[0].where() if cp else f.file))
    cpf = prog.fn(ostore.SC + "::copy_payload")
    vcall = [e for e in cpf.calls() if re.search(r"ops::function::Fn(Once|Mut)?::call", e.callee or "")]
    bw = [e for (ff, e, m) in events if ff is cpf and m == "copy_opts"]
    okv = set()
    for v in vcall:
        okv |= set(cpf.result_edges(v)[0])
    rep.ob("R09.2", "verify-before-copy|copy_payload", bool(vcall) and bool(bw) and bool(okv) and cpf.must_pass(okv, [b.block for b in bw]),
           "copy_payload invokes the verify callback (Ok edge) before the backend copy", (bw[0].where() if bw else cpf.file))
    # listing policy
    unchecked_enc = [e for f in fns for e in f.calls_named(r"ListingMetaPolicy::<M>::unchecked$")]
    unchecked_lib = [e for f in prog.fns.values() if f.crate == "anda_object_store" and f.file.endswith("/lib.rs") for e in f.calls_named(r"ListingMetaPolicy::<M>::unchecked$")]
    rep.ob("R09.2", "no-unchecked-listing|encryption.rs", not unchecked_enc and len(unchecked_lib) >= 3,
           "the encrypted store lists through the verified policy only (positive control: MetaStore uses unchecked %d times)" % len(unchecked_lib),
           (unchecked_enc[0].where() if unchecked_enc else ENC))
    lp = prog.fn(ENC + "::EncryptedStore::<T>::listing_meta_policy")
    rep.ob("R09.2", "listing-policy-verifies", any(k.calls_named(VER) for k in prog.closures_of(lp)) and bool(lp.calls_named(r"ListingMetaPolicy::<M>::verified$")),
           "listing_meta_policy builds a verified policy whose validator authenticates each document", lp.file + ":%d" % lp.line)
    le = prog.fn(ostore.SC + "::listing_entry")
    val = [e for e in le.calls() if re.search(r"ops::function::Fn::call$", e.callee or "")]
    aggs = [b for b in le.live_blocks() for st in le.stmts(b) if st[0] == "A" and st[2]["k"] == "agg" and st[2]["a"].get("def") == "object_store::ObjectMeta"]
    okv = set()
    for v in val:
        okv |= set(le.result_edges(v)[0])
    some_edge = [m["Some"] for (sb, place, adt, m, els) in le.variant_edges() if adt == "core::option::Option" and "Some" in m and "validator" in le.slice_fields({"c": {"l": place.l}})]
    none_edge = [m["None"] for (sb, place, adt, m, els) in le.variant_edges() if adt == "core::option::Option" and "None" in m and "validator" in le.slice_fields({"c": {"l": place.l}})]
    ok = bool(val) and bool(aggs) and bool(okv) and all(not (le.reachable_from([t], avoid=okv) & set(aggs)) for t in some_edge) and bool(some_edge)
    # ... and on *every* path (a document served from the metadata cache included): the entry is built only after the policy's
    # validator slot was consulted - its None edge (no validator configured) or the Ok edge of the validator call
    ok = ok and le.must_pass(set(okv) | set(none_edge), aggs)
    rep.ob("R09.2", "validator-before-surface|listing_entry", ok, "when a validator is configured an entry is surfaced only on its Ok edge", le.file + ":%d" % le.line)

    # legacy acceptance: verify_metadata may answer `Legacy` (unauthenticated, pre-authentication layout) only when *every*
    # marker of the authenticated layout is absent - both auth fields, chunk_aad_version and the generation pointer - and
    # strict mode is off.  Any of them present means the auth fields were stripped (downgrade).
    vm = prog.fn(ENC + "::verify_metadata")
    rep.saw(vm, len(vm.events))
    legacy = [b for b in vm.live_blocks() for st in vm.stmts(b) if st[0] == "A" and st[2]["k"] == "agg"
              and (st[2]["a"].get("def") or "").endswith("MetadataAuth") and st[2]["a"].get("v") == "Legacy"]
    if not legacy:
        raise CheckerFault("verify_metadata: the MetadataAuth::Legacy answer was not found")
    from .c06_db import _bool_switch
    for fld in ("chunk_aad_version", "generation", "auth_nonce", "auth_tag"):
        # every way the code asks "is <fld> present?": is_some / is_none on the field, or a match on the Option
        reach = []
        site = vm.file + ":%d" % vm.line
        for e in vm.calls_named(r"Option::<T>::is_some$"):
            if fld in vm.slice_fields(e.args[0]):
                reach.append(valueflow.reachable_if_result(vm, e, 1))
                site = e.where()
        for e in vm.calls_named(r"Option::<T>::is_none$"):
            if fld in vm.slice_fields(e.args[0]):
                reach.append(valueflow.reachable_if_result(vm, e, 0))
                site = e.where()
        for (sb, place, adt, m, els) in vm.variant_edges():
            if adt == "core::option::Option" and "Some" in m and fld in vm.slice_fields({"c": {"l": place.l, "p": place.p if hasattr(place, "p") else []}}):
                reach.append(valueflow.reachable_ps(vm, m["Some"]))
        rep.ob("R09.2", "legacy-needs-absent|%s" % fld, bool(reach) and not any(r & set(legacy) for r in reach),
               "a document that carries %s must never be accepted as unauthenticated legacy metadata "
               "(the `present` edge of a test of that field reaches the Legacy answer, or the field is not tested at all)" % fld, site)
    st_sw = [b for b in vm.live_blocks() if vm.term(b)["k"] == "switch" and core.op_place(vm.term(b)["o"]) is not None
             and vm.var_name(core.op_place(vm.term(b)["o"]).l) == "strict" or
             (vm.term(b)["k"] == "switch" and core.op_place(vm.term(b)["o"]) is not None and 4 in
              {o[1] for o in vm.slice_back_local(core.op_place(vm.term(b)["o"]).l) if o[0] == "arg"})]
    bad = [b for b in st_sw if valueflow.reachable_ps(vm, vm.term(b)["else"]) & set(legacy)]
    rep.ob("R09.2", "legacy-needs-absent|strict", bool(st_sw) and not bad, "strict mode never answers Legacy", vm.file + ":%d" % vm.line)

    # ------------------------------------------------------------------ R09.3 nonce freshness
    rep.rule("R09.3", "every encryption nonce = derive_gcm_nonce(base from rand_bytes() of this write, counter) or rand_bytes(); never a stored document's nonce; counter advances", floor=6)
    fr = Fresh(prog)
    for f in fns:
        for e in f.calls_named(ENCRYPT_RX):
            outer = prog.outer_fn(f).path.replace("anda_object_store::", "")
            oc = origin_calls(f, e.args[1])
            fl = fr.locals(f)
            p = core.op_place(e.args[1])
            fresh = p is not None and p.l in fl
            from_doc = "aes_nonce" in f.slice_fields(e.args[1], through=lambda ev: ev.callee in core.TRANSPARENT or "From" in ev.callee or ev.callee.endswith("derive_gcm_nonce")) and \
                not ("Uploader" in outer)
            derived = any(n.endswith("::derive_gcm_nonce") or n.endswith("::rand_bytes") for n in oc)
            rep.ob("R09.3", "nonce-fresh|%s" % outer, fresh and derived and not from_doc,
                   "encryption nonce must derive from rand_bytes() drawn for this write via derive_gcm_nonce (fresh=%s, derived=%s, from stored document=%s)" % (fresh, derived, from_doc), e.where())
    for method in ("put_part", "complete"):
        f0 = ostore.wrapper_fn(prog, "EncryptedStoreUploader", method)
        for f in [f0]:
            rep.saw(f, len(f.events))
            dn = f.calls_named(r"encryption::derive_gcm_nonce$")
            incs = set()
            for b in f.live_blocks():
                for st in f.stmts(b):
                    if st[0] == "A" and st[1].get("p") and [e["n"] for e in st[1]["p"] if isinstance(e, dict) and "n" in e][-1:] == ["chunk_index"]:
                        incs.add(b)
            ok = bool(dn) and bool(incs)
            for d in dn:
                # from one derivation, the next derivation (loop back) must pass an increment
                r = f.reachable_from([d.block], avoid=incs, include_start=False)
                if d.block in r:
                    ok = False
                # and the counter argument is the uploader's chunk_index
                ok = ok and "chunk_index" in f.slice_fields(d.args[1]) | set(core.Place(d.args[1].get("c") or d.args[1].get("m") or {"l": 0}).fields())
            rep.ob("R09.3", "counter-advances|EncryptedStoreUploader::%s" % method, ok, "between two nonce derivations the uploader's chunk_index is advanced", (dn[0].where() if dn else f.file))

    # ------------------------------------------------------------------ R09.4 plaintext confinement
    rep.rule("R09.4", "no backend write operand flows directly from the caller's payload; each written buffer passed an encrypting chunks_mut loop (positive control: MetaStore forwards the payload)", floor=4)
    for (f, e, m) in events:
        if m not in ("put_opts", "put_part") or not f.file.endswith("encryption.rs"):
            continue
        rep.saw(f, 1)
        outer = prog.outer_fn(f).path.replace("anda_object_store::", "")
        data_arg = e.args[2] if m == "put_opts" else e.args[1]
        seen = set()
        p = core.op_place(data_arg)
        f.slice_back_local(p.l, seen=seen)
        payload_locals = _payload_sources(prog, f)
        direct = bool(seen & payload_locals)
        rep.ob("R09.4", "no-direct-plaintext|%s" % outer, not direct, "the written operand derives directly from the caller's PutPayload", e.where())
        cm = [c for c in f.calls_named(r"slice::<impl \[T\]>::chunks_mut$") if _same_buffer(f, c, seen)]
        enc = f.calls_named(ENCRYPT_RX)
        ok = bool(cm) and bool(enc) and f.must_pass([c.block for c in cm], [e.block]) and any(f.dominates(c.block, x.block) for c in cm for x in enc)
        rep.ob("R09.4", "encrypted-before-write|%s" % outer, ok, "the buffer handed to the backend passed a chunks_mut loop that encrypts in place", e.where())
    # positive control
    ctl = 0
    for (f, e, m) in events:
        if m == "put_opts" and f.file.endswith("/lib.rs"):
            seen = set()
            p = core.op_place(e.args[2])
            f.slice_back_local(p.l, seen=seen)
            if seen & _payload_sources(prog, f):
                ctl += 1
    rep.ob("R09.4", "positive-control|MetaStore::put_opts", ctl >= 1, "the direct-flow detector must fire on MetaStore (which forwards the payload verbatim)", "rs/anda_object_store/src/lib.rs")

    # ------------------------------------------------------------------ R09.5 error discipline
    rep.rule("R09.5", "Results of encrypt/decrypt/verify_metadata/chunk_aad_for_meta are never discarded; decrypt tags come from a checked aes_tags lookup", floor=12)
    for f in fns:
        for e in f.calls_named(ENCRYPT_RX, DECRYPT_RX, VER, r"encryption::chunk_aad_for_meta$", r"encryption::seal_metadata$", r"EncryptedStore::<T>::seal_metadata$",
                               r"encryption::chunk_aad_version$", r"encryption::ensure_chunk_aad_version$"):
            rep.saw(f, 1)
            outer = prog.outer_fn(f).path.replace("anda_object_store::", "")
            used = _result_used(f, e) or _returned_directly(f, e)
            rep.ob("R09.5", "result-used|%s|%s" % (outer, e.name.rsplit("::", 1)[1]), used, "the Result of %s is discarded" % e.name, e.where())
        for e in f.calls_named(DECRYPT_RX):
            outer = prog.outer_fn(f).path.replace("anda_object_store::", "")
            if outer.endswith("verify_metadata"):
                continue
            flds = f.slice_fields(e.args[4], through=lambda ev: ev.callee in core.TRANSPARENT or "From" in ev.callee or ev.callee.endswith("::get") or "ok_or" in ev.callee or ev.callee == core.TRY_BRANCH)
            oc = origin_calls(f, e.args[4], through=lambda ev: ev.callee in core.TRANSPARENT or "From" in ev.callee or ev.callee == core.TRY_BRANCH)
            checked = any("ok_or" in n or n.endswith("::get") for n in oc)
            rep.ob("R09.5", "tag-from-checked-lookup|%s" % outer, "aes_tags" in flds and checked,
                   "the authentication tag must come from meta.aes_tags.get(idx) with the missing-tag edge turned into an error", e.where())
    return rep.finish(EXPLAIN)


def _flows_to_return(f, der):
    if 0 in der:
        return True
    # the returned local is moved into _0 at the end
    for b in f.live_blocks():
        for st in f.stmts(b):
            if st[0] == "A" and st[1]["l"] == 0:
                for o in core._rvalue_operands(st[2]):
                    p = core.op_place(o)
                    if p is not None and p.l in der:
                        return True
    return False


def _payload_sources(prog, f):
    """Locals holding the caller's PutPayload (parameter or captured `payload`) and values iterated out of it."""
    out = set()
    for l, ty in enumerate(f.locals):
        if ty in ("object_store::payload::PutPayload", "&object_store::payload::PutPayload") and (1 <= l <= f.argc):
            out.add(l)
    for b in f.live_blocks():
        for st in f.stmts(b):
            if st[0] == "A":
                for pl in _places(st[2]):
                    if pl["l"] == 1 and f.kind == "Closure" and any(isinstance(e, dict) and e.get("n") == "payload" for e in (pl.get("p") or [])):
                        out.add(st[1]["l"])
    return out


def _same_buffer(f, c, seen):
    s2 = set()
    p = core.op_place(c.args[0])
    if p is None:
        return False
    f.slice_back_local(p.l, seen=s2)
    return bool((s2 & seen) - {1})


def _returned_directly(f, e):
    """`fn x(..) -> Result { inner(..) }`: the call's destination is the return place."""
    return e.dest is not None and e.dest.l == 0
