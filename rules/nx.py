"""Shared anchors for anda_cognitive_nexus."""
import re

from lib import core
from lib.report import CheckerFault

N = "anda_cognitive_nexus"
WRITE_RX = re.compile(
    r"^anda_db::collection::Collection::(add|add_from|update|remove|flush|close|save_extension\w*|remove_extension|set_extension\w*|create_\w+|remove_\w+_index|compact_\w+|reconcile_storage)$|"
    r"^anda_db::database::AndaDB::(create_collection|delete_collection|flush|close|save_extension\w*|remove_extension|set_extension\w*|set_read_only|open_or_create_collection)$")
SESSION_EXEC = "<anda_cognitive_nexus::nexus::Session as anda_kip::executor::Executor>::execute"
_PROG = {}


def load():
    if "p" not in _PROG:
        _PROG["p"] = core.Program([N])
    return _PROG["p"]


def is_write(node, fn):
    name = fn.path if fn is not None else (node[4:] if node.startswith("ext:") else node)
    return bool(WRITE_RX.search(name))


def short(p):
    return p.replace("anda_cognitive_nexus::", "")


def outer_name(prog, f):
    return short(prog.outer_fn(f).path)


def store_method(prog, name):
    """The Store method `name` wherever its impl block lives (store/mod.rs, write.rs, history.rs, space.rs, tx.rs)."""
    c = [f for f in prog.fns.values() if f.crate == N and f.kind == "AssocFn" and f.impl_adt == N + "::store::Store" and f.path.rsplit("::", 1)[1] == name]
    if not c:
        raise CheckerFault("anchor missing: Store::%s" % name)
    return c[0]


def callers_of(prog, target_ids, within=None):
    out = []
    for f in prog.fns.values():
        if f.crate != N:
            continue
        for e in f.events:
            if e.kind == "ref" or e.kind == "call" or e.kind == "await":
                if any(n in target_ids for n in prog.callee_nodes(e)):
                    out.append((f, e))
    return out


def ok_blocks(f):
    return [b for b in f.live_blocks() for st in f.stmts(b) if st[0] == "A" and st[1]["l"] == 0 and st[2]["k"] == "agg" and st[2]["a"].get("v") == "Ok"]
