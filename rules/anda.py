"""Shared anchors and primitive tables for the anda_db crate family (DESIGN §3)."""
import re

from lib import core
from lib.report import CheckerFault

COLL = "anda_db::collection::Collection"
DB = "anda_db::database::AndaDB"
STORAGE = "anda_db::storage::Storage"

# backend write primitives: any write method of the object_store traits, and the
# two Storage constructors of writer objects whose poll fns perform the put.
OBJ_WRITE_RX = re.compile(
    r"^(<.*as )?object_store::ObjectStore(Ext)?>?::(put|put_opts|put_multipart|put_multipart_opts|delete|delete_stream|"
    r"copy|copy_opts|copy_if_not_exists|rename|rename_opts|rename_if_not_exists)$")
WRITER_CTOR_RX = re.compile(r"^anda_db::storage::Storage::(to_writer|stream_writer)$|^object_store::buffered::BufWriter::")
INDEX_MUT_RX = re.compile(
    r"^(anda_db_btree::btree::BTreeIndex::<.*>::(insert|insert_array|remove|remove_array|batch_update)"
    r"|anda_db_tfs::bm25::BM25Index::<.*>::(insert|remove|purge_ids)"
    r"|anda_db_hnsw::hnsw::HnswIndex::(insert|insert_f32|remove))$")
# wrapper-level index mutators in anda_db::index (what collection.rs calls)
WRAP_MUT_RX = re.compile(
    r"^anda_db::index::(btree::BTree::(insert|remove|update|batch_update|insert_array|remove_array)"
    r"|bm25::BM25::(insert|remove|purge_ids)|hnsw::Hnsw::(insert|remove))$")
ATOMIC_WRITE_RX = re.compile(r"^core::sync::atomic::Atomic::<\w+>::(store|swap|compare_exchange|compare_exchange_weak|fetch_\w+)$")
ATOMIC_LOAD_RX = re.compile(r"^core::sync::atomic::Atomic::<\w+>::load$")


def node_name(node, fn):
    return fn.path if fn is not None else (node[4:] if node.startswith("ext:") else node)


def is_storage_write(node, fn):
    n = node_name(node, fn)
    return bool(OBJ_WRITE_RX.search(n) or WRITER_CTOR_RX.search(n))


def is_index_mut(node, fn):
    return bool(INDEX_MUT_RX.search(node_name(node, fn)))


def is_effect(node, fn):
    return is_storage_write(node, fn) or is_index_mut(node, fn)


_PROG = {}


def load(extra=()):
    key = tuple(extra)
    if key not in _PROG:
        _PROG[key] = core.Program(["anda_db", "anda_db_btree", "anda_db_tfs", "anda_db_hnsw"] + list(extra))
    return _PROG[key]


def recv_fields(f, e):
    """Field names on the backward slice of the receiver (first argument) of event e."""
    if not e.args:
        return set()
    return f.slice_fields(e.args[0])


def const_def(o):
    """(def path, int value) of a constant operand, else (None, None)."""
    k = o.get("k") if isinstance(o, dict) else None
    if not k:
        return (None, None)
    return (k.get("def"), k.get("int"))


class Coll:
    """Semantic anchors inside anda_db::collection (looked up by shape, then by name)."""

    def __init__(self, prog):
        self.prog = prog
        self.methods = [f for f in prog.fns.values() if f.impl_adt == COLL and f.kind == "AssocFn" and not f.impl_trait]
        if len(self.methods) < 60:
            raise CheckerFault("anchor missing: fewer than 60 inherent methods on %s" % COLL)
        self.by_name = {f.path.rsplit("::", 1)[1]: f for f in self.methods}
        # --- poison function(s): write LIFECYCLE_POISONED into field `lifecycle`
        self.poison_fns = []
        for f in self.methods:
            for e in self.lifecycle_writes(f):
                if any((const_def(a)[0] or "").endswith("LIFECYCLE_POISONED") for a in e.args):
                    self.poison_fns.append(f)
                    break
        if not self.poison_fns:
            raise CheckerFault("anchor missing: no function stores LIFECYCLE_POISONED into Collection.lifecycle")
        self.poison_ids = {f.id for f in self.poison_fns}
        # --- mutability check: loads lifecycle + read_only + database_read_only, returns Result<(), DBError>
        self.check_fns = []
        for f in self.methods:
            if not f.locals[0].startswith("core::result::Result<(), "):
                continue
            loaded = self._loaded_fields(f, 3)
            if {"lifecycle", "read_only", "database_read_only"} <= loaded:
                self.check_fns.append(f)
        if not self.check_fns:
            raise CheckerFault("anchor missing: no mutability check (fn loading lifecycle, read_only, database_read_only)")
        self.check_ids = {f.id for f in self.check_fns}
        # --- lease wrappers: contain a gate acquire and return the guard
        self.lease_fns = []
        for f in self.methods:
            b = prog.async_body(f) or f
            if self.gate_acquires(b, direct_only=True):
                ret = b.locals[0] if not b.coroutine else f.locals[0]
                sig = " ".join(f.locals[:1] + b.locals[:1])
                if "OwnedRwLock" in sig and "Guard" in sig:
                    self.lease_fns.append(f)
        self.lease_ids = {f.id for f in self.lease_fns}
        # --- cancel guard type: ADT whose Drop reaches a poison fn
        self.cancel_adts = set()
        for f in prog.fns.values():
            if f.impl_trait == "core::ops::drop::Drop" and f.crate == "anda_db":
                if prog.reach_set([f.id]) & self.poison_ids:
                    self.cancel_adts.add(f.impl_adt)
        if not self.cancel_adts:
            raise CheckerFault("anchor missing: no Drop impl in anda_db reaches the poison function")
        self.cancel_ty_rx = "|".join(re.escape(a) for a in sorted(self.cancel_adts))
        self.cancel_ctor_ids = {f.id for f in self.methods if re.search(self.cancel_ty_rx, f.locals[0])}
        if not self.cancel_ctor_ids:
            raise CheckerFault("anchor missing: no Collection method returns the cancel guard type")

    def _loaded_fields(self, f, depth):
        """Atomic fields of the handle loaded by f, directly or through small `&self` predicates it calls
        (`ensure_mutable` may be written in terms of `is_active_handle()`)."""
        loaded = set()
        for e in f.calls_named(ATOMIC_LOAD_RX.pattern):
            loaded |= recv_fields(f, e)
        if depth > 0:
            mids = {m.id: m for m in self.methods}
            for e in f.calls():
                m = mids.get(e.rid) or mids.get(e.cid)
                if m is not None and m.id != f.id and not m.coroutine and self.prog.async_body(m) is None and m.n <= 40:
                    loaded |= self._loaded_fields(m, depth - 1)
        return loaded

    # ---------------------------------------------------------------- events
    def lifecycle_writes(self, f):
        return [e for e in f.calls_named(ATOMIC_WRITE_RX.pattern) if "lifecycle" in recv_fields(f, e)]

    def lifecycle_loads(self, f):
        return [e for e in f.calls_named(ATOMIC_LOAD_RX.pattern) if "lifecycle" in recv_fields(f, e)]

    def gate_acquires(self, f, direct_only=False):
        """Events acquiring Collection.operation_gate: (event, 'shared'|'exclusive', checked: bool)."""
        out = []
        for e in f.calls():
            nm = e.callee or ""
            m = re.search(r"tokio::sync::rwlock::RwLock::<T>::(read_owned|write_owned|read|write)$", nm)
            if m and "operation_gate" in recv_fields(f, e):
                out.append((e, "shared" if m.group(1).startswith("read") else "exclusive", False))
            elif not direct_only and e.cid in getattr(self, "lease_ids", ()):
                lf = self.prog.fns[e.cid]
                lb = self.prog.async_body(lf) or lf
                inner = self.gate_acquires(lb, direct_only=True)
                mode = inner[0][1] if inner else "?"
                # the wrapper counts as "checked" only if its check runs after its own acquisition
                # (close/delete publish their state before waiting for the exclusive gate)
                checked = any(lb.dominates(a.block, c.block) and a.block != c.block
                              for c in lb.calls() if c.cid in self.check_ids for (a, _, _) in inner)
                out.append((e, mode, checked))
        return out

    def check_events(self, f):
        return [e for e in f.calls() if e.cid in self.check_ids]

    def receiver_kind(self, f):
        if f.argc == 0:
            return None
        t = f.locals[1]
        if t.startswith("&mut " + COLL):
            return "mut"
        if t.startswith("&" + COLL):
            return "shared"
        if t.startswith(COLL):
            return "owned"
        return None
