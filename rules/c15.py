"""C15 — KIP parsing is total, bounded, deterministic and classifies by content.  (DESIGN §4 C15)"""
import os
import re
import sys

from lib import core, valueflow
from lib.report import CheckerFault

EXPLAIN = (
    "Static analysis over rustc MIR of anda_kip: R15.1 every public parser entry runs the length/nesting pre-scan first (its Err edge reaches nothing else), wraps its grammar in "
    "all_consuming, and the entries that produce mutations reach the tree validator on the success path before returning Ok; R15.2 recursion budget - every cycle of the parser's call "
    "graph (function items and closures passed to combinators count as edges; hand-written Parser impls are linked through the types that carry them) passes through a function that "
    "either checks MAX_KIP_NESTING_DEPTH or consumes an opening bracket that the pre-scan bounds; removing those witness functions leaves the parser call graph acyclic; "
    "R15.3 explicit panic constructs reachable from the entries inside anda_kip are exactly the reviewed ones (keyed by function, construct and message); overflow checks are reported "
    "as information only; R15.4 classification depends on the text alone: parse_kip takes only the input, CommandType is derived from the variant, and Operation::parse compares a declared "
    "language only after parsing and only to refuse. Not decided: independence from case/whitespace/comments, serde round trip, wall-clock bound.")

P = "anda_kip::parser"
ENTRIES = ("parse_kip", "parse_kql", "parse_kml", "parse_meta", "parse_json")
_PROG = {}

REVIEWED_PANICS = {
    # (function, construct, message) -> reason
    ("anda_kip::parser::common::raw_predicate", "expect", "one atom"): "alternation of exactly one atom checked by the preceding length test",
    ("anda_kip::parser::common::collapse_array", "panic_fmt", "checked above"): "all() over the same items proved every element is a literal",
    ("anda_kip::parser::common::collapse_object", "panic_fmt", "checked above"): "all() over the same entries proved every value is a literal",
    ("anda_kip::parser::kml::transition_activity", "expect", "SET FIELDS"): "body section looked up under a key that parse_body only returns when present",
    ("anda_kip::parser::kml::transition_activity", "expect", "SET STRUCTURAL"): "same",
}


def load():
    if "p" not in _PROG:
        _PROG["p"] = core.Program(["anda_kip"])
    return _PROG["p"]


def outer_graph(prog, pred):
    """Call graph over outer (named) functions satisfying pred; closure creation inside one function is not an edge."""
    adj = {}
    for f in prog.fns.values():
        o = prog.outer_fn(f)
        if not pred(o):
            continue
        for c in prog.callees(f.id):
            t = prog.fns.get(c)
            if t is None:
                continue
            if t.kind == "Closure" and prog.outer_fn(t).id == o.id:
                continue
            to = prog.outer_fn(t)
            if pred(to):
                adj.setdefault(o.id, set()).add(to.id)
    return adj


def sccs(adj, nodes=None):
    sys.setrecursionlimit(100000)
    idx, low, st, on, out = {}, {}, [], set(), []
    counter = [0]

    def sc(v):
        idx[v] = low[v] = counter[0]
        counter[0] += 1
        st.append(v)
        on.add(v)
        for w in adj.get(v, ()):
            if nodes is not None and w not in nodes:
                continue
            if w not in idx:
                sc(w)
                low[v] = min(low[v], low[w])
            elif w in on:
                low[v] = min(low[v], idx[w])
        if low[v] == idx[v]:
            comp = []
            while True:
                w = st.pop()
                on.discard(w)
                comp.append(w)
                if w == v:
                    break
            out.append(comp)
    for v in list(adj):
        if nodes is not None and v not in nodes:
            continue
        if v not in idx:
            sc(v)
    return [c for c in out if len(c) > 1 or c[0] in adj.get(c[0], ())]


def budget_witness(prog, o):
    """(kind) if the named function (incl. its closures) checks the nesting constant or consumes an opening bracket."""
    for f in [o] + prog.closures_of(o):
        for b in f.live_blocks():
            for st in f.stmts(b):
                if st[0] == "A" and st[2]["k"] == "bin" and st[2]["op"] in ("Gt", "Ge", "Lt", "Le"):
                    ops = (st[2]["a"], st[2]["b"])
                    for x, y in (ops, ops[::-1]):
                        if ((x.get("k") or {}).get("def") or "").endswith("MAX_KIP_NESTING_DEPTH"):
                            # the compared value must be the function's own depth parameter (or a captured copy of it)
                            org = f.slice_back_op(y)
                            if any(k in ("arg", "upvar") for k, _ in [(o[0], o[1]) for o in org]):
                                return "depth-check"
        for e in f.calls():
            nm = e.callee or ""
            if nm in (P + "::common::braced", P + "::common::parenthesized"):
                return "bracket:" + nm.rsplit("::", 1)[1]
            if nm == "nom::character::complete::char" and e.args:
                k = e.args[0].get("k") or {}
                if k.get("int") in ("40", "91", "123"):
                    return "bracket:char(%s)" % chr(int(k["int"]))
    return None


def _pair_lower_bound(prog, outer, k_):
    """Lower bound of the range test applied to tuple field `k_` in the closure that tests *both* fields of a pair (the `verify`
    predicate of the surrogate pair): min over its tests of that field; 0 when not found."""
    best = None
    for sib in prog.closures_of(outer):
        tests = sib.calls_named(r"ops::range::Range::<Idx>::contains$")
        flds = set()
        for e in tests:
            flds |= {x for x in sib.slice_fields(e.args[1]) if x in ("0", "1")}
        if flds != {"0", "1"}:
            continue
        for e in tests:
            if k_ not in sib.slice_fields(e.args[1]):
                continue
            for o_ in sib.slice_back_op(e.args[0], through=lambda ev: False):
                if o_[0] == "agg" and o_[1][2]["a"].get("def") == "core::ops::range::Range":
                    kk = core.op_const(o_[1][2]["ops"][0])
                    if kk is not None and kk.get("int") is not None:
                        v = int(kk["int"])
                        best = v if best is None else min(best, v)
    return best if best is not None else 0


def run(rep, tier):
    prog = load()
    rep.not_decided = "independence from keyword case / inter-token whitespace / comments, serde_json round trip of the tree, wall-clock bound"
    rep.assumptions = ["rustc MIR and callee resolution", "nom combinators call only the parsers handed to them", "the pre-scan bounds bracket nesting (checked structurally only)",
                       "serde_json's own recursion limit bounds injected trees"]

    # ------------------------------------------------------------------ R15.1
    rep.rule("R15.1", "entries: budget pre-scan first (Err edge reaches nothing), grammar wrapped in all_consuming, mutation-producing entries reach the tree validator before Ok", floor=12)
    for name in ENTRIES:
        f = prog.fn(P + "::" + name)
        rep.saw(f, len(f.events))
        vb = f.calls_named(r"parser::validate_parser_budget$")
        others = [e for e in f.calls() if e not in vb and not (e.callee or "").startswith("core::ops::try_trait")]
        okb, errb = set(), set()
        for v in vb:
            o, r = f.result_edges(v)
            okb |= set(o)
            errb |= set(r)
        ok = bool(vb) and bool(okb) and all(f.must_pass(okb, [e.block]) for e in others) and not any(f.reachable_from([t]) & {e.block for e in others if e.callee != core.FROM_RESIDUAL} for t in errb)
        rep.ob("R15.1", "budget-first|%s" % name, ok, "validate_parser_budget must dominate every other call of %s and its Err edge must reach none" % name, f.file + ":%d" % f.line)
        ac = f.calls_named(r"nom::combinator::all_consuming$")
        pr = [e for e in f.calls() if re.search(r"nom::internal::Parser::parse$|Parser<.*>>::parse$", e.callee or "")]
        ok = bool(ac) and bool(pr) and any(("call", a) in [(o[0], o[1]) for o in f.slice_back_op(p.args[0])] for p in pr for a in ac)
        rep.ob("R15.1", "all-consuming|%s" % name, ok, "the parser run by %s is the all_consuming(..) wrapper (whole input consumed)" % name, f.file + ":%d" % f.line)
    for name, vrx in (("parse_kip", r"parser::validate_command$"), ("parse_kml", r"kml::validate_plan$")):
        f = prog.fn(P + "::" + name)
        v = f.calls_named(vrx)
        okv = set()
        for e in v:
            okv |= set(f.result_edges(e)[0])
        okret = [b for b in f.live_blocks() for st in f.stmts(b) if st[0] == "A" and st[1]["l"] == 0 and st[2]["k"] == "agg" and st[2]["a"].get("v") == "Ok"]
        rep.ob("R15.1", "validated-before-ok|%s" % name, bool(v) and bool(okv) and bool(okret) and f.must_pass(okv, okret), "%s returns Ok only on the Ok edge of the tree validator" % name, f.file + ":%d" % f.line)
    bud = prog.fn(P + "::validate_parser_budget")
    rep.saw(bud, len(bud.events))
    consts = set()
    for b in bud.live_blocks():
        for st in bud.stmts(b):
            if st[0] == "A" and st[2]["k"] == "bin":
                for x in (st[2]["a"], st[2]["b"]):
                    d = (x.get("k") or {}).get("def") or ""
                    if d:
                        consts.add(d.rsplit("::", 1)[1])
    rep.ob("R15.1", "prescan-limits|validate_parser_budget", {"MAX_KIP_INPUT_LEN", "MAX_KIP_NESTING_DEPTH"} <= consts,
           "the pre-scan compares against both documented limits (found %s)" % sorted(consts), bud.file + ":%d" % bud.line)

    # ------------------------------------------------------------------ R15.2 recursion budget
    rep.rule("R15.2", "every cycle of the parser call graph passes a nesting-depth check or a bracket-consuming step; the rest is acyclic", floor=6)
    inparser = lambda o: o.crate == "anda_kip" and (o.path.startswith(P + "::") or o.path.startswith("<" + P))
    adj = outer_graph(prog, inparser)
    entry_ids = [prog.fn(P + "::" + n, body=False).id for n in ENTRIES]
    reach = set()
    work = list(entry_ids)
    while work:
        v = work.pop()
        if v in reach:
            continue
        reach.add(v)
        work.extend(adj.get(v, ()))
    comps = sccs(adj, reach)
    def ast_walker(o):
        """Recursion over an already-built tree, not over input text: the function takes a value of an anda_kip::ast type (or a slice /
        reference of one) and does not return a parser result."""
        body = prog.fn(o.path)
        ret = body.locals[0]
        args = [o.locals[i] for i in range(1, o.argc + 1)]
        return (not re.search(r"nom::|IResult|VerboseError", ret)) and any(re.search(r"anda_kip::(ast|request)::|serde_json::value::Value|anda_kip::parser::kml::\w+Statement", a) for a in args)
    witnesses = {}
    for comp in comps:
        names = sorted(prog.fns[x].path for x in comp)
        if all(ast_walker(prog.fns[x]) for x in comp):
            rep.note("R15.2-ast-walker:" + names[0].rsplit("::", 1)[1], "recursion over an already-built tree; depth bounded by the parser (text path) or serde_json's limit (tree path)")
            continue
        ws = {x: budget_witness(prog, prog.fns[x]) for x in comp}
        ws = {x: w for x, w in ws.items() if w}
        witnesses.update(ws)
        rest = set(comp) - set(ws)
        leftover = sccs({k: {w for w in v if w in rest} for k, v in adj.items() if k in rest}, rest)
        detail = ""
        if leftover:
            detail = "cycle without a budget witness: %s" % sorted(prog.fns[x].path.rsplit("::", 1)[1] for x in leftover[0])
        rep.saw(prog.fns[comp[0]], len(comp))
        rep.ob("R15.2", "budgeted|%s" % "+".join(n.rsplit("::", 1)[1] for n in names)[:120], bool(ws) and not leftover,
               detail or "witnesses: %s" % sorted("%s:%s" % (prog.fns[x].path.rsplit("::", 1)[1], w) for x, w in ws.items()), prog.fns[comp[0]].file + ":%d" % prog.fns[comp[0]].line)
    # depth parameters are threaded: a call between members of one recursive component passes a value derived
    # from the caller's own depth parameter (depth or depth + 1), never a fresh constant
    for comp in comps:
        members = {x for x in comp}
        for x in comp:
            o = prog.fns[x]
            dps = [l for l in range(1, o.argc + 1) if o.locals[l] == "usize"]
            if len(dps) != 1:
                continue
            for f in [o] + prog.closures_of(o):
                for e in f.calls():
                    tgt = prog.fns.get(e.cid)
                    if tgt is None or tgt.id not in members:
                        continue
                    tdp = [l for l in range(1, tgt.argc + 1) if tgt.locals[l] == "usize"]
                    if len(tdp) != 1 or len(e.args) < tdp[0]:
                        continue
                    org = f.slice_back_op(e.args[tdp[0] - 1])
                    threaded = any(k[0] == "arg" and k[1] == dps[0] for k in org) or any(k[0] == "upvar" and k[1] == "depth" for k in org)
                    fresh_const = any(k[0] == "const" and k[1].get("int") == "0" for k in org) and not threaded
                    rep.ob("R15.2", "depth-threaded|%s->%s" % (o.path.rsplit("::", 1)[1], tgt.path.rsplit("::", 1)[1]), threaded and not fresh_const,
                           "the nesting depth handed to %s must derive from the caller's depth parameter" % tgt.path.rsplit("::", 1)[1], e.where())
    # the filter grammar carries an explicit depth parameter that is incremented on recursion
    fu = prog.fn(P + "::common::filter_unary")
    rep.ob("R15.2", "filter-depth-param|filter_unary", budget_witness(prog, fu) == "depth-check", "the unbracketed filter operators (!, unary -, &&, ||) are bounded by an explicit depth check", fu.file + ":%d" % fu.line)

    # ------------------------------------------------------------------ R15.3 panic sites
    rep.rule("R15.3", "explicit panic constructs reachable from the entries inside anda_kip are exactly the reviewed table (function, construct, message)", floor=5)
    rs = prog.reach_set(entry_ids)
    PAN = re.compile(r"^core::panicking::(panic|panic_fmt|panic_display|unreachable_display|panic_explicit|panic_nounwind)|::(expect|unwrap|expect_err|unwrap_err)$|^std::rt::begin_panic|^core::option::(expect_failed|unwrap_failed)|^core::result::unwrap_failed")
    found = {}
    overflow = 0
    bounds = []
    for n in rs:
        f = prog.fns.get(n)
        if f is None or f.crate != "anda_kip":
            continue
        for e in f.calls():
            nm = e.callee or ""
            if not PAN.search(nm):
                continue
            if nm.endswith("::unwrap") and "Option" not in nm and "Result" not in nm:
                continue
            kind = "panic_fmt" if "panicking" in nm else nm.rsplit("::", 1)[1]
            msg = _message(prog, f, e).replace("internal error: entered unreachable code: ", "")
            found.setdefault((prog.outer_fn(f).path, kind, msg), []).append(e)
        for b in f.live_blocks():
            t = f.term(b)
            if t["k"] == "assert":
                if t["msg"].startswith("Overflow") or t["msg"].startswith("DivisionByZero") or t["msg"].startswith("RemainderByZero"):
                    overflow += 1
                else:
                    bounds.append((prog.outer_fn(f).path, t["msg"], t.get("ln", 0)))
    rep.note("overflow_asserts_info_only", overflow)
    rep.note("bounds_asserts", bounds[:20])
    for key, evs in sorted(found.items()):
        rep.saw(evs[0].fn, 1)
        rep.ob("R15.3", "panic-site|%s|%s|%s" % (key[0].rsplit("::", 2)[-2] + "::" + key[0].rsplit("::", 1)[1], key[1], key[2]), key in REVIEWED_PANICS,
               "unreviewed explicit panic construct %s(%r) reachable from the KIP parser entry points" % (key[1], key[2]), evs[0].where())
    for key in REVIEWED_PANICS:
        if key not in found:
            rep.note("reviewed-panic-gone:%s" % key[0].rsplit("::", 1)[1], key[2])
    for (fnp, msg, ln) in bounds:
        rep.ob("R15.3", "index-assert|%s|%s" % (fnp.rsplit("::", 1)[1], msg), False, "unreviewed indexing assert (%s) reachable from the parser entries" % msg, "%s:%d" % (fnp, ln))

    # ------------------------------------------------------------------ R15.4 classification by content
    rep.rule("R15.4", "classification by content: parse_kip has one parameter; CommandType derives from the variant; a declared language is compared after parsing and only refuses", floor=3)
    pk = prog.fn(P + "::parse_kip", body=False)
    rep.ob("R15.4", "single-input|parse_kip", pk.argc == 1 and pk.locals[1] == "&str", "parse_kip takes the text and nothing else", pk.file + ":%d" % pk.line)
    ct = [f for f in prog.fns.values() if f.crate == "anda_kip" and f.path == "anda_kip::ast::CommandType::from"]
    ok = False
    if ct:
        f = ct[0]
        ves = [ve for ve in f.variant_edges() if ve[2] == "anda_kip::ast::Command"]
        reads_payload = any(e for e in f.calls())
        ok = bool(ves) and not f.calls()
    rep.ob("R15.4", "type-from-variant|CommandType::from", ok, "the command type is a function of the Command variant alone (no call, no payload inspection)", (ct[0].file if ct else "rs/anda_kip/src/ast.rs"))
    opf = [f for f in prog.fns.values() if f.crate == "anda_kip" and re.search(r"request::Operation::parse$", f.path)]
    ok = False
    if opf:
        f = opf[0]
        rep.saw(f, len(f.events))
        parse_calls = f.calls_named(r"parser::parse_kip$")
        cmp_calls = [e for e in f.calls_named(r"PartialEq.*::(eq|ne)$") if any("CommandType" in f.locals[core.op_place(a).l] or "Language" in f.locals[core.op_place(a).l]
                                                                            for a in e.args if core.op_place(a) is not None)]
        ok = bool(parse_calls) and (not cmp_calls or all(f.must_pass([p.block for p in parse_calls], [c.block]) or not f.can_reach([c.block], [p.block for p in parse_calls]) for c in cmp_calls))
        # parse_kip's argument does not depend on the declared language
        for p in parse_calls:
            flds = f.slice_fields(p.args[0])
            if "language" in flds or "lang" in flds:
                ok = False
    rep.ob("R15.4", "declared-language-after-parse|Operation::parse", ok, "the declared language never selects the parser; it is compared with the parsed command's type afterwards", (opf[0].file if opf else "rs/anda_kip/src/request.rs"))
    # ------------------------------------------------------------------ R15.5 the budget pre-scan and the lexer agree on comments
    rep.rule("R15.5", "the nesting-budget pre-scan and the real lexer end a `//` comment at the same characters (otherwise brackets the scan "
                      "takes for comment text are really parsed, or the reverse)", floor=1)
    lx = prog.fn("anda_kip::parser::json::skip_ws_and_comments")
    bs = prog.fn("anda_kip::parser::validate_parser_budget")
    rep.saw(lx, len(lx.events))
    rep.saw(bs, len(bs.events))
    A, unknownA = set(), False
    finds = [e for e in lx.calls_named(r"^core::str::<impl str>::(find|split_once|find_map|rfind)$")]
    sw = [e for e in lx.calls_named(r"^core::str::<impl str>::starts_with$") if (core.op_const(e.args[1]) or {}).get("str") == "//"]
    for e in finds:
        if not any(lx.dominates(s_.block, e.block) for s_ in sw):
            continue
        k = core.op_const(e.args[1])
        if k is not None and k.get("ty") == "char" and k.get("int") is not None:
            A.add(int(k["int"]))
            continue
        got = False
        for o in lx.slice_back_op(e.args[1], through=lambda ev: False):
            if o[0] == "const" and o[1].get("ty") == "char" and o[1].get("int") is not None:
                A.add(int(o[1]["int"]))
                got = True
        if not got:
            unknownA = True
    B = set()
    flag = [l for l in range(len(bs.locals)) if bs.var_name(l) == "in_line_comment"]

    def clears(b):
        return any(st[0] == "A" and not st[1].get("p") and st[1]["l"] in flag and st[2]["k"] == "use"
                   and (core.op_const(st[2]["o"]) or {}).get("int") == "0" for st in bs.stmts(b))
    for b in bs.live_blocks():
        for st in bs.stmts(b):
            if st[0] == "A" and st[2]["k"] == "bin" and st[2]["op"] == "Eq":
                k = core.op_const(st[2]["b"]) or core.op_const(st[2]["a"])
                if k is None or k.get("ty") != "char":
                    continue
                t = bs.term(b)
                if t["k"] == "switch" and core.op_place(t["o"]) is not None and core.op_place(t["o"]).l == st[1]["l"] and clears(t["else"]):
                    B.add(int(k["int"]))
        t = bs.term(b)
        if t["k"] == "switch" and core.op_place(t["o"]) is not None and bs.locals[core.op_place(t["o"]).l] == "char":
            for v, tb in t["v"]:
                if clears(tb):
                    B.add(int(v))
    if not flag or not sw:
        raise CheckerFault("R15.5 anchors missing (in_line_comment flag %r, starts_with(\"//\") %r)" % (flag, sw))
    rep.ob("R15.5", "comment-end-agreement|skip_ws_and_comments~validate_parser_budget", bool(A) and not unknownA and A == B,
           "the lexer ends a line comment at characters %s, the budget pre-scan at %s" % (sorted(A) if not unknownA else "?", sorted(B)),
           (finds[0].where() if finds else lx.file))
    # ------------------------------------------------------------------ R15.7 checked arithmetic in the parser cannot trip
    rep.rule("R15.7", "every overflow-checked arithmetic site inside the parser is one of the reviewed forms (depth + 1 under the nesting budget, index + 1 inside "
                      "a string, the surrogate decoding whose subtrahends are covered by the range test of the same operand); anything else can panic", floor=10)
    REVIEWED_ARITH = {   # (outer function, operation, constant) -> why it cannot overflow
        ("skip_ws_and_comments", "AddWithOverflow", "1"): "position of a byte found inside the remaining input + 1 <= its length",
        ("unicode_escape", "AddWithOverflow", "65536"): "(high_ten << 10) + low_ten < 2^20",
        ("unicode_escape", "AddWithOverflow", None): "two 10-bit quantities",
        ("unicode_escape", None, None): "shift by the constant 10",
        ("negated_number", None, None): "shift by the constant 63 (1u64 << 63)",
    }
    for f in prog.fns.values():
        if f.crate != "anda_kip" or not prog.outer_fn(f).path.startswith(P + "::"):
            continue
        oname = prog.outer_fn(f).path.rsplit("::", 1)[1]
        for b in f.live_blocks():
            t = f.term(b)
            if t["k"] != "assert" or "Overflow" not in t.get("msg", ""):
                continue
            op, cst, lhs = None, None, None
            for st in f.stmts(b):
                if st[0] == "A" and st[2]["k"] == "bin" and "WithOverflow" in st[2]["op"]:
                    op = st[2]["op"]
                    cst = (core.op_const(st[2]["b"]) or {}).get("int")
                    lhs = st[2]["a"]
            key = "arith|%s|%s|%s" % (oname, op, cst)
            site = "%s:%s" % (f.file, t.get("ln", f.line))
            if op == "AddWithOverflow" and cst == "1" and lhs is not None and any(
                    (o_[0] == "arg" and prog.outer_fn(f).locals[o_[1]] == "usize") or (o_[0] == "upvar" and o_[1] == "depth")
                    for o_ in f.slice_back_op(lhs, through=lambda ev: False)):
                rep.ob("R15.7", key, True, "depth + 1: bounded by the nesting budget (R15.2)", site)
            elif op == "SubWithOverflow" and oname == "unicode_escape":
                # the subtrahend must be covered by the lower bound of the range test the sibling `verify` closure applies to the same operand
                fld = sorted(f.slice_fields(lhs))
                k_ = fld[0] if fld else None
                starts = []
                for sib in prog.closures_of(prog.outer_fn(f)):
                    for e in sib.calls_named(r"ops::range::Range::<Idx>::contains$"):
                        if k_ is None or k_ not in sib.slice_fields(e.args[1]):
                            continue
                        for o_ in sib.slice_back_op(e.args[0], through=lambda ev: False):
                            if o_[0] == "agg" and o_[1][2]["a"].get("def") == "core::ops::range::Range":
                                kk = core.op_const(o_[1][2]["ops"][0])
                                if kk is not None and kk.get("int") is not None:
                                    starts.append(int(kk["int"]))
                # the decode closure is reached only through the pair test (the lone-code-unit alternative never reaches it)
                pair_starts = [s_ for s_ in starts]
                ok = cst is not None and bool(pair_starts) and any(s_ >= int(cst) for s_ in pair_starts) and \
                    not any(s_ < int(cst) and s_ != 0xD800 for s_ in pair_starts) and _pair_lower_bound(prog, prog.outer_fn(f), k_) >= int(cst)
                rep.ob("R15.7", key, ok, "the decoded operand (tuple field %s) has %s subtracted but the range test that admits it starts at %s: "
                       "an admitted value below the subtrahend underflows and panics" % (k_, cst, _pair_lower_bound(prog, prog.outer_fn(f), k_)), site)
            elif (oname, op, cst) in REVIEWED_ARITH:
                rep.ob("R15.7", key, True, REVIEWED_ARITH[(oname, op, cst)], site)
            else:
                rep.ob("R15.7", key, False, "overflow-checked arithmetic that is not one of the reviewed forms: it can panic on some input", site)

    # ------------------------------------------------------------------ R15.6 the grammar flavour is threaded, never re-decided below the entry
    rep.rule("R15.6", "a parser that was given a Flavor passes that same value to every flavour-taking parser it calls (only the statement-level entries choose a "
                      "constant): otherwise parse_meta / parse_kql / parse_kml accept shapes parse_kip's validator refuses", floor=30)
    FLV = P + "::common::Flavor"
    for f in prog.fns.values():
        if f.crate != "anda_kip":
            continue
        o = prog.outer_fn(f)
        has_own = any(o.locals[l] == FLV for l in range(1, o.argc + 1))
        if not has_own:
            continue
        for e in f.calls():
            cal = prog.fns.get(e.rid) or prog.fns.get(e.cid)
            if cal is None:
                continue
            for i in range(1, cal.argc + 1):
                if cal.locals[i] != FLV or i - 1 >= len(e.args):
                    continue
                org = f.slice_back_op(e.args[i - 1], through=lambda ev: False)
                consts = sorted({o_[1][2]["a"].get("v") for o_ in org if o_[0] == "agg"} | {"const" for o_ in org if o_[0] == "const"})
                rep.ob("R15.6", "flavor-threaded|%s->%s" % (o.path.rsplit("::", 1)[1], cal.path.rsplit("::", 1)[1]), bool(org) and not consts,
                       "%s was given a Flavor but calls %s with the constant %s" % (o.path.rsplit("::", 1)[1], cal.path.rsplit("::", 1)[1], consts), e.where())
    # ------------------------------------------------------------------ R15.8 limits and build switches the round trip depends on
    rep.rule("R15.8", "what 'survives a JSON encode/decode unchanged' and 'bounded work' depend on outside the grammar: the nesting budget times the JSON "
             "levels a source bracket costs stays under serde_json's recursion limit; serde_json is built with float_roundtrip; whole-plan validation "
             "copies no plan-wide set per clause; the two whitespace skippers use one predicate", floor=4)
    from lib import facts as _facts
    depth = [k.get("int") for pth, k in prog.consts.items() if pth == "anda_kip::parser::MAX_KIP_NESTING_DEPTH"]
    # reviewed on the AST: a nested NOT / Proposition / array / update function costs at most 3 JSON levels per source bracket
    # ({"Not": [ {..} ]}: variant object, payload array, element object); serde_json refuses to decode beyond 128 levels
    JSON_LEVELS_PER_BRACKET, SERDE_JSON_RECURSION_LIMIT = 3, 128
    rep.ob("R15.8", "nesting-budget-fits-json-recursion-limit|MAX_KIP_NESTING_DEPTH",
           bool(depth) and depth[0] is not None and int(depth[0]) * JSON_LEVELS_PER_BRACKET < SERDE_JSON_RECURSION_LIMIT,
           "MAX_KIP_NESTING_DEPTH = %s: a command nested that deep is accepted, yet its tree nests up to %d JSON levels per bracket and serde_json stops decoding "
           "at %d - serde_json::from_str::<Command>(to_string(cmd)) answers `recursion limit exceeded` for a command the parser accepted (and in an unoptimized "
           "build the descent overflows a 2 MiB thread stack before that)" % (depth, JSON_LEVELS_PER_BRACKET, SERDE_JSON_RECURSION_LIMIT),
           "rs/anda_kip/src/parser.rs")
    try:
        import tomllib
        with open(os.path.join(_facts.REPO, "Cargo.toml"), "rb") as fh:
            ws = tomllib.load(fh)
        sj = ((ws.get("workspace") or {}).get("dependencies") or {}).get("serde_json")
        with open(os.path.join(_facts.REPO, "rs/anda_kip/Cargo.toml"), "rb") as fh:
            kip = tomllib.load(fh)
        own = (kip.get("dependencies") or {}).get("serde_json")
    except Exception as exc:          # fail closed
        raise CheckerFault("cannot read the serde_json dependency declaration: %s" % exc)
    feats = set()
    for d_ in (sj, own):
        if isinstance(d_, dict):
            feats |= set(d_.get("features") or [])
    rep.ob("R15.8", "serde-json-float-roundtrip|Cargo.toml", "float_roundtrip" in feats,
           "serde_json is built without `float_roundtrip` (features %s): Number::from_str stores some 16-18 digit decimals one ULP off and every JSON encode/decode "
           "of the tree shifts them again - FIND(?x) WHERE { FILTER(?x > 0.98953424590239882) } does not survive the round trip unchanged" % sorted(feats), "Cargo.toml")
    vp_ = prog.fn(P + "::kml::validate_plan")
    heads_ = [e.block for e in vp_.calls_named(r"Iterator>?::next$")]
    copies = [e for e in vp_.calls_named(r"clone::Clone>?::clone$")
              if re.search(r"BTree(Set|Map)<|HashSet<|HashMap<|Vec<", (e.finfo or {}).get("self", "") + vp_.locals[e.dest.l])
              and any(vp_.dominates(h, e.block) and vp_.can_reach([e.block], [h]) for h in heads_)]
    rep.ob("R15.8", "no-plan-wide-copy-per-clause|validate_plan", bool(heads_) and not copies,
           "validate_plan clones a collection inside its loop over the clauses: a plan of n creating clauses costs n^2 to validate - a 256 KiB MUTATE block of "
           "CREATE CONCEPT clauses takes 10 s, and a request may batch 256 of them", (copies[0].where() if copies else vp_.file))
    # every punctuation token of the grammar may be preceded by trivia: a `char(..)` parser applied to the raw input at the start of a
    # token-level parser (not wrapped in ws) makes `"is_a" {1,3}` a syntax error where `"is_a"{1,3}` parses
    pq = prog.fn(P + "::common::path_quantifier")
    first = sorted((e for e in pq.calls() if re.search(r"Parser>?::parse$|::parse$", e.name or "")), key=lambda e: (e.line, e.block))
    bare = False
    if first:
        org = pq.slice_back_op(first[0].args[0], through=lambda ev: False) if first[0].args else []
        bare = any(o[0] == "call" and re.search(r"character::complete::char$", o[1].name or "") for o in org) and not any(
            o[0] == "call" and re.search(r"common::ws$", o[1].name or "") for o in org)
    rep.ob("R15.8", "token-preceded-by-trivia|path_quantifier", bool(first) and not bare,
           "path_quantifier starts with a bare char('{') on the raw input: `\"is_a\" {1,3}` is a syntax error while `\"is_a\"{ 1 , 3 }` parses - the parsed command "
           "depends on inter-token whitespace", pq.file + ":%d" % pq.line)
    isws = lambda g: any(re.search(r"char::methods::<impl char>::is_whitespace$", e.name or "") for k_ in [g] + list(prog.closures_of(g)) for e in k_.events)
    sk = prog.fn(P + "::json::skip_ws_and_comments")
    t1 = prog.fn(P + "::common::trivia1")
    ascii_only = [e for k_ in [t1] + list(prog.closures_of(t1)) for e in k_.events if re.search(r"character::complete::(multispace[01]|space[01])", e.name or "")]
    rep.ob("R15.8", "one-whitespace-predicate|trivia1", isws(sk) and isws(t1) and not ascii_only,
           "skip_ws_and_comments skips char::is_whitespace while trivia1 (between the words of a keyword) accepts ASCII whitespace only: U+00A0, U+2003, U+3000 .. "
           "separate tokens everywhere else but `ORDER<U+00A0>BY`, `AS<ws>OF`, `CREATE<ws>CONCEPT` are syntax errors - the parsed command depends on "
           "inter-token whitespace", t1.file + ":%d" % t1.line)

    return rep.finish(EXPLAIN)


def _message(prog, f, e):
    """String literal reaching a panic construct (expect message / panic format piece)."""
    for a in e.args:
        k = a.get("k")
        if k and "str" in k:
            return k["str"]
        for o in f.slice_back_op(a, through=lambda ev: ev.callee in core.TRANSPARENT or "fmt::Arguments" in (ev.callee or "") or "fmt::rt" in (ev.callee or "")):
            if o[0] == "const" and "str" in o[1]:
                return o[1]["str"]
    # unreachable!("..") with no arguments: the literal sits in the format_args pieces of an earlier statement
    for b in sorted(f.live_blocks()):
        if f.dominates(b, e.block) or b == e.block:
            for st in f.stmts(b):
                if st[0] == "A":
                    for o in core._rvalue_operands(st[2]):
                        k = o.get("k")
                        if k and "str" in k and st[3] == e.line:
                            return k["str"]
            t = f.term(b)
            if t["k"] == "call" and t.get("ln") == e.line:
                for a in t["args"]:
                    k = a.get("k")
                    if k and "str" in k:
                        return k["str"]
    return ""
