"""C06 — closed/deleted/poisoned/read-only handles never write; cancel = crash.  (DESIGN §4 C06)

Decides the admission / cancel-guard / lifecycle-transition skeleton; not the behaviour."""
import re

from lib import core
from lib.report import CheckerFault
from . import anda

EXPLAIN = (
    "Static structural analysis over rustc MIR of anda_db (all paths of every function involved): "
    "R06.1 every externally callable Collection method that can reach a backend write or an in-memory index mutation "
    "passes, on every path and in this order, the operation-gate acquisition and a mutability/lifecycle check whose failure edge "
    "reaches no effect; R06.2 every suspension point of a shared-handle async mutator at which an effect is in flight or "
    "which lies between two effects is covered by an armed cancel guard; R06.3 every write of Collection.lifecycle uses an "
    "allowed constant transition and none re-creates ACTIVE; R06.4-R06.7 database-level ordering of delete/close/open. "
    "Not decided: that drop glue runs, behaviour after reopen.")


def effect_events(prog, body, eff_nodes, entries_ids):
    out = []
    for e in body.events:
        if e.kind == "ref":
            continue
        if e.callee in core.NOISE_CALLEES:
            continue
        for n in prog.callee_nodes(e):
            if n in entries_ids:
                continue
            if n in eff_nodes:
                out.append(e)
                break
    # an awaited create is represented twice (create + await); keep both, harmless
    return out


RAW_INDEX_TY_RX = re.compile(
    r"\banda_db::index::(btree::BTree|bm25::BM25|hnsw::Hnsw)\b|\banda_db_btree::btree::BTreeIndex\b"
    r"|\banda_db_tfs::bm25::BM25Index\b|\banda_db_hnsw::hnsw::HnswIndex\b")


def _view_rules(rep, prog):
    """R06.6 (replaces the round-0 compile-fail witnesses): collection-owned indexes are reachable from outside only
    through the query-only view types.  The raw wrappers have `&self` mutators (interior mutability), so handing one out
    would let a caller write past the gate, the lifecycle check and the recovery journal."""
    rep.rule("R06.6", "no public anda_db function outside index/ mentions a raw index type in its signature; "
                      "every method of the *IndexView types is effect-free over the call graph", floor=100)
    views = sorted(a for a in prog.adts if re.search(r"^anda_db::collection::\w+IndexView$", a))
    if len(views) < 3:
        raise CheckerFault("index view types not found (have %r)" % views)
    eff = prog.reaching(anda.is_effect)
    nview = 0
    for f in prog.fns.values():
        if f.crate != "anda_db" or f.kind == "Closure":
            continue
        if f.impl_adt in views:
            nview += 1
            body = prog.fn(f.path)
            rep.saw(body, len(body.events))
            ok = f.id not in eff and body.id not in eff
            path = None if ok else prog.find_path(body, anda.is_effect)
            rep.ob("R06.6", "view-effect-free|%s" % f.path, ok,
                   "a view method reaches a backend write or index mutation: %s" % (" -> ".join(path) if path else ""),
                   f.file + ":%d" % f.line)
        if f.vis != "pub" or "/index/" in f.file:
            continue
        body = prog.fn(f.path)
        tys = [body.locals[0]] + list(f.locals[1:1 + f.argc])
        bad = [t for t in tys if RAW_INDEX_TY_RX.search(t)]
        rep.ob("R06.6", "signature|%s" % f.path, not bad,
               "public signature exposes a raw index wrapper (its &self mutators bypass the collection): %s" % bad[:1],
               f.file + ":%d" % f.line)
    if nview < 15:
        rep.fault("R06.6: only %d view methods found" % nview)


def run(rep, tier):
    prog = anda.load()
    C = anda.Coll(prog)
    rep.not_decided = "drop glue actually running the guard; state after reopen; value-level read-only semantics"
    rep.assumptions = ["rustc MIR construction and callee resolution", "Rust drop semantics (a guard is released at its Drop)",
                       "tokio RwLock is a lock", "unwind paths ignored (panic=abort in release)"]

    _view_rules(rep, prog)

    # ------------------------------------------------------------------ entries
    all_eff = prog.reaching(anda.is_effect)
    cand = [f for f in C.methods if f.vis in ("pub", "crate") and f.id in all_eff]
    entries = []
    for f in cand:
        rk = C.receiver_kind(f)
        if rk in ("shared", "mut"):
            entries.append(f)
    entry_ids = {f.id for f in entries}
    eff = prog.reaching(anda.is_effect, stop=lambda n, f: n in entry_ids)
    rep.note("entries", sorted(f.path for f in entries))
    rep.note("constructors_exempt", sorted(f.path for f in cand if C.receiver_kind(f) not in ("shared", "mut")))

    rep.rule("R06.1", "admission: gate acquire -> mutability/lifecycle check dominate every effect; failure edge reaches no effect", floor=25)
    rep.rule("R06.2", "cancel guard armed at every suspension point with an effect in flight or between two effects (shared-handle async mutators)", floor=11)
    rep.rule("R06.3", "Collection.lifecycle writes: allowed constant transitions only; ACTIVE never re-created; CLOSED/DELETED stores on the Ok edge", floor=5)

    for f in sorted(entries, key=lambda f: f.path):
        body = prog.async_body(f) or f
        rk = C.receiver_kind(f)
        evs = effect_events(prog, body, eff, entry_ids)
        rep.saw(body, len(body.events))
        name = f.path
        if not evs:
            # pure delegator to another entry (add_from -> add): nothing of its own to admit
            rep.note("delegator:" + name, True)
            continue
        eff_blocks = sorted({e.block for e in evs})
        acqs = C.gate_acquires(body)
        checks = C.check_events(body)
        # lease wrappers that include the check count as checks placed at the acquire
        check_blocks = {e.block for e in checks} | {e.block for (e, m, chk) in acqs if chk}
        lifecycle_loads = C.lifecycle_loads(body)
        own_transition = bool(C.lifecycle_writes(body)) or any(
            prog.event_in(e, {p.id for p in C.methods if C.lifecycle_writes(prog.async_body(p) or p)} - C.poison_ids)
            for e in body.calls())
        if rk == "shared":
            acq_blocks = {e.block for (e, m, chk) in acqs}
            ok = bool(acq_blocks) and all(body.must_pass(acq_blocks, [b]) for b in eff_blocks)
            first = evs[0]
            rep.ob("R06.1", "gate|%s" % name, ok,
                   "operation_gate acquisition must dominate every effect site (effects: %s)" % ", ".join(
                       sorted({e.name for e in evs}))[:300], f.file + ":%d" % f.line)
            # the lease must still be held at every effect (close/delete drain by taking the gate exclusively)
            gins, gouts = core.guard_flow(body, [a for (a, _, _) in acqs], r"tokio::sync::rwlock::owned_(read|write)_guard::OwnedRwLock(Read|Write)Guard")
            notheld = [e for e in evs if not gins.get(e.block) and not gins.get(e.call_block)]
            rep.ob("R06.1", "gate-held|%s" % name, not notheld,
                   "the operation_gate guard is released before: %s" % ", ".join("%s (line %d)" % (e.name.rsplit("::", 1)[1], e.line) for e in notheld),
                   f.file + ":%d" % f.line)
            # checks must come after an acquire
            post_checks = {b for b in check_blocks if any(body.dominates(a, b) or a == b for a in acq_blocks)}
            if not post_checks and own_transition:
                # close / drop_data: re-load lifecycle after the exclusive gate
                post_checks = {e.block for e in lifecycle_loads if any(body.dominates(a, e.block) for a in acq_blocks)
                               and _flows_to_switch(body, e)}
                kind = "lifecycle re-load after gate"
            else:
                kind = "mutability check after gate"
            ok = bool(post_checks) and all(body.must_pass(post_checks, [b]) for b in eff_blocks)
            rep.ob("R06.1", "check-after-gate|%s" % name, ok, "%s must dominate every effect site" % kind, f.file + ":%d" % f.line)
            if kind.startswith("lifecycle") and not _transitions_to(prog, C, body, "LIFECYCLE_DELETING"):
                # an entry admitted on lifecycle alone (close) still must not write through a handle that was
                # read-only when it was called: some read of the read-only flags has to decide before the effects.
                # (Deletion is the database's call and is refused there on a read-only database: R06.7.)
                ro = [e for e in body.calls_named(r"Atomic::<bool>::(load|swap|fetch_or|compare_exchange)$")
                      if {"read_only", "database_read_only"} & anda.recv_fields(body, e) and _flows_to_switch(body, e)]
                rb = {e.block for e in ro}
                ok = bool(rb) and all(body.must_pass(rb, [b]) for b in eff_blocks)
                rep.ob("R06.1", "read-only-respected|%s" % name, ok,
                       "admitted on lifecycle alone: the entry writes (%s) without ever reading read_only / database_read_only, "
                       "so a handle that is read-only (itself or through its database) is flushed by it" % ", ".join(
                           sorted({e.name.rsplit("::", 1)[1] for e in evs}))[:160], f.file + ":%d" % f.line)
        else:
            ok = bool(check_blocks) and all(body.must_pass(check_blocks, [b]) for b in eff_blocks)
            rep.ob("R06.1", "check|%s" % name, ok, "&mut entry: mutability check must dominate every effect site", f.file + ":%d" % f.line)
        # failure edge of each check reaches no effect
        for e in checks + [e for (e, m, chk) in acqs if chk]:
            src = e.poll_dest.l if e.poll_dest is not None else e.dest.l
            oes = body.outcome_edges(src)
            errs = [m["err"] for (_, adt, m) in oes if "err" in m]
            if not errs:
                rep.ob("R06.1", "check-result-used|%s" % name, False, "result of %s is not branched on" % e.name, e.where())
                continue
            bad = [t for t in errs if body.reachable_from([t]) & set(eff_blocks)]
            rep.ob("R06.1", "check-err-edge|%s" % name, not bad,
                   "the Err edge of %s must not reach an effect site" % e.name, e.where())

        # ---------------------------------------------------------------- R06.2
        if rk == "shared" and body.coroutine:
            ctor_events = [e for e in body.calls() if e.cid in C.cancel_ctor_ids]
            ins, outs = core.guard_flow(body, ctor_events, C.cancel_ty_rx)
            yields = _yields_needing_guard(prog, body, evs)
            bad = []
            for (y, why) in yields:
                st = ins.get(y)
                if not st:
                    bad.append((y, why))
            if bad:
                # exempt: the entry first moves the handle into the terminal DELETING state on every path to
                # an effect (every later call is refused anyway; a retry finishes the delete)
                term = [c for c in body.calls() if c.cid in prog.fns and any(
                    (anda.const_def(a)[0] or "").endswith("LIFECYCLE_DELETING")
                    for w in C.lifecycle_writes(prog.fns[c.cid]) for a in w.args)]
                if term and all(body.must_pass({c.block for c in term}, [y]) for y, _ in bad):
                    rep.note("R06.2-terminal-exempt:" + name, [c.name for c in term])
                    bad = []
            rep.ob("R06.2", "cancel-guard|%s" % name, not bad and bool(yields or not _has_async_effect(evs)),
                   "suspension points not covered by an armed cancel guard: %s" % "; ".join(
                       "bb%d(line %d: %s)" % (y, body.term(y).get("ln", 0), why) for y, why in bad)[:400],
                   f.file + ":%d" % f.line)

    # ------------------------------------------------------------------ R06.1 inner waits (helpers included)
    # A call that passed admission and then queues on an inner lock (document stripe, watermark gate,
    # extension gate) is "already queued when the transition began": another shared-lease holder may poison the
    # handle, or set_read_only may return, while it waits.  Every effect after the wait needs its own check.
    INNER_RX = re.compile(r"tokio::sync::(mutex::Mutex::<T>::lock|rwlock::RwLock::<T>::(read|write)(_owned)?)$")
    ninner = 0
    for f in sorted(C.methods, key=lambda f: f.path):
        body = prog.async_body(f) or f
        if not body.coroutine:
            continue
        waits = [e for e in body.calls() if INNER_RX.search(e.callee or "") and "operation_gate" not in anda.recv_fields(body, e)]
        if not waits:
            continue
        evs = effect_events(prog, body, all_eff, set())
        checks = C.check_events(body)
        for i, w in enumerate(waits):
            after = body.reachable_from([w.block])
            late = sorted({e.block for e in evs if e.block in after and e.block != w.block})
            if not late:
                continue
            ninner += 1
            post = {c.block for c in checks if c.block != w.block and body.dominates(w.block, c.block)}
            bad = [b for b in late if not (post and body.must_pass(post, [b]))]
            fields = sorted(anda.recv_fields(body, w) - {"self"})
            rep.saw(body, len(late))
            rep.ob("R06.1", "recheck-after-inner-wait|%s|%s" % (f.path, fields[0] if fields else "lock#%d" % i), not bad,
                   "after waiting on an inner lock the handle may have been poisoned or made read-only by another "
                   "lease holder; a mutability check placed after the wait must dominate every later effect site "
                   "(unchecked effect blocks: %s)" % ", ".join("bb%d(line %d)" % (b, body.term(b).get("ln", 0)) for b in bad[:6]),
                   w.where())
    if ninner < 4:
        raise CheckerFault("anchor missing: inner lock waits followed by effects (found %d, counted 4)" % ninner)

    # ------------------------------------------------------------------ R06.3 lifecycle writes (whole crate)
    ALLOWED_TO = {"LIFECYCLE_CLOSING": {"LIFECYCLE_ACTIVE"},
                  "LIFECYCLE_CLOSED": {"LIFECYCLE_CLOSING"},
                  "LIFECYCLE_POISONED": {"LIFECYCLE_ACTIVE", "LIFECYCLE_CLOSING"},
                  "LIFECYCLE_DELETING": {"LIFECYCLE_ACTIVE", "LIFECYCLE_CLOSING", "LIFECYCLE_CLOSED", "LIFECYCLE_POISONED"},
                  "LIFECYCLE_DELETED": {"LIFECYCLE_DELETING"}}
    consts = {p.rsplit("::", 1)[1]: k.get("int") for p, k in prog.consts.items() if p.startswith("anda_db::collection::LIFECYCLE_")}
    val2name = {v: n for n, v in consts.items()}
    if len(consts) < 6:
        raise CheckerFault("anchor missing: LIFECYCLE_* constants")
    nwrites = 0
    for f in prog.fns.values():
        if f.crate != "anda_db":
            continue
        ws = C.lifecycle_writes(f)
        if not ws:
            continue
        rep.saw(f, len(ws))
        for e in ws:
            nwrites += 1
            op = e.callee.rsplit("::", 1)[1]
            key = "%s|%s" % (prog.outer_fn(f).path, op)
            if op == "store":
                new = _const_name(e.args[1], val2name)
                ok = new in ALLOWED_TO
                rep.ob("R06.3", "const|" + key + "|" + str(new), ok, "lifecycle.store(%s): target must be a non-ACTIVE constant" % new, e.where())
                if new == "LIFECYCLE_CLOSED":
                    _store_on_ok_edge(rep, prog, C, f, e, key, r"Collection::flush_inner$", "flush_inner")
                    _dominated_by_state_test(rep, f, e, key, C, ALLOWED_TO[new], consts)
                elif new == "LIFECYCLE_DELETED":
                    _store_on_ok_edge(rep, prog, C, f, e, key, r"Storage::drop_data$", "Storage::drop_data")
                    # begin_delete (-> DELETING) must precede
                    bd = [c for c in f.calls() if c.cid and c.cid in prog.fns and any(
                        _const_name(w.args[1] if w.callee.endswith("store") else w.args[2], val2name) == "LIFECYCLE_DELETING"
                        for w in C.lifecycle_writes(prog.fns[c.cid]))]
                    okb = bool(bd) and f.must_pass({c.block for c in bd}, [e.block])
                    rep.ob("R06.3", "deleted-after-deleting|" + key, okb, "store(DELETED) must be preceded by the ->DELETING transition", e.where())
            elif op.startswith("compare_exchange"):
                cur, new = e.args[1], e.args[2]
                newn = _const_name(new, val2name)
                ok = newn in ALLOWED_TO
                rep.ob("R06.3", "const|" + key + "|" + str(newn), ok, "lifecycle CAS new value must be a non-ACTIVE constant", e.where())
                if not ok:
                    continue
                curn = _const_name(cur, val2name)
                if curn is not None:
                    rep.ob("R06.3", "from|" + key + "|" + newn, curn in ALLOWED_TO[newn], "CAS %s -> %s not an allowed transition" % (curn, newn), e.where())
                else:
                    _dominated_by_state_test(rep, f, e, key + "|" + newn, C, ALLOWED_TO[newn], consts, cur_op=cur)
            else:
                rep.ob("R06.3", "op|" + key, False, "unexpected atomic write %s on lifecycle" % op, e.where())
    # struct construction: lifecycle field initialised only in constructors (no &self receiver)
    for f in prog.fns.values():
        if f.crate != "anda_db":
            continue
        for b in f.live_blocks():
            for st in f.stmts(b):
                if st[0] == "A" and st[2]["k"] == "agg" and st[2]["a"].get("def") == anda.COLL:
                    outer = prog.outer_fn(f)
                    rk = C.receiver_kind(outer)
                    rep.ob("R06.3", "construct|%s" % outer.path, rk is None,
                           "Collection is constructed (lifecycle=ACTIVE) only by receiver-less constructors", f.file + ":%d" % (st[3] if len(st) > 3 else 0))
    # read_only.store(non-constant) must be refused unless lifecycle is ACTIVE
    for f in C.methods:
        for e in f.calls_named(r"Atomic::<bool>::store$"):
            if "read_only" not in anda.recv_fields(f, e) or "database_read_only" in anda.recv_fields(f, e):
                continue
            d, v = anda.const_def(e.args[1])
            k = e.args[1].get("k")
            if k is not None:
                ok = k.get("int") == "1"
                rep.ob("R06.3", "read_only-const|%s" % f.path, ok, "constant read_only.store must be `true`", e.where())
                continue
            rep.saw(f, 1)
            _read_only_store_guarded(rep, f, e, C)

    # ------------------------------------------------------------------ database level
    from . import c06_db
    c06_db.run(rep, prog, C, eff, entry_ids)
    return rep.finish(EXPLAIN)


def _transitions_to(prog, C, body, const):
    """The entry (or a helper it calls) stores the named lifecycle constant."""
    def stores(g):
        return any((anda.const_def(a)[0] or "").endswith(const) for w in C.lifecycle_writes(g) for a in w.args)
    if stores(body):
        return True
    return any(c.cid in prog.fns and stores(prog.async_body(prog.fns[c.cid]) or prog.fns[c.cid]) for c in body.calls())


def _const_name(o, val2name):
    d, v = anda.const_def(o)
    if d and d.rsplit("::", 1)[1].startswith("LIFECYCLE_"):
        return d.rsplit("::", 1)[1]
    if v is not None:
        return val2name.get(v, "const:%s" % v)
    return None


def _flows_to_switch(f, e):
    der = f.derived_locals([e.dest.l])
    for b in f.live_blocks():
        t = f.term(b)
        if t["k"] == "switch":
            p = core.op_place(t["o"])
            if p is not None and p.l in der:
                return True
    return False


def _has_async_effect(evs):
    return any(e.awaited for e in evs)


def _yields_needing_guard(prog, body, evs):
    """Yield blocks at which an effect is in flight, or that lie between two effect sites."""
    yields = [b for b in body.live_blocks() if body.term(b)["k"] == "yield"]
    eff_blocks = {e.block for e in evs}
    out = []
    # in-flight: yields inside the poll loop of an awaited effect event
    for e in evs:
        if not e.awaited or e.poll_block is None:
            continue
        ready = None
        for (sb, place, adt, m, els) in body.variant_edges():
            if place.l == e.poll_dest.l and "Ready" in m:
                ready = m["Ready"]
        avoid = {ready} if ready is not None else set()
        loop = body.reachable_from([e.poll_block], avoid=avoid, include_start=False)
        for y in yields:
            if y in loop and e.poll_block in body.reachable_from([y], avoid=avoid, include_start=False):
                out.append((y, "awaiting " + e.name))
    # between: some effect reaches y and y reaches some effect
    after = body.reachable_from(list(eff_blocks), include_start=False)
    for y in yields:
        if y in after and (body.reachable_from([y], include_start=False) & eff_blocks):
            if not any(y == yy for yy, _ in out):
                out.append((y, "between two effect sites"))
    return out


def _store_on_ok_edge(rep, prog, C, f, e, key, callee_rx, label):
    calls = f.calls_named(callee_rx)
    ok = False
    for c in calls:
        src = c.poll_dest.l if c.poll_dest is not None else c.dest.l
        for (_, adt, m) in f.outcome_edges(src):
            if "ok" in m and "err" in m and f.dominates(m["ok"], e.block) and e.block not in f.reachable_from([m["err"]]):
                ok = True
    rep.ob("R06.3", "ok-edge|" + key + "|" + label, ok, "the store must lie on the Ok edge of %s only" % label, e.where())


def _dominated_by_state_test(rep, f, e, key, C, allowed_from, consts, cur_op=None):
    """Path-sensitive: the state value the transition starts from (the CAS `current` operand, or for a
    plain store the nearest dominating lifecycle load) can only be one of `allowed_from` at the write."""
    from lib import valueflow
    loads = C.lifecycle_loads(f)
    if not loads:
        rep.ob("R06.3", "from|" + key, False, "no lifecycle load guards this transition", e.where())
        return
    dom = sorted(int(v) for v in consts.values())
    at = valueflow.analyse(f, {ld.block: ld.dest.l for ld in loads}, dom)
    allowed_vals = {int(consts[n]) for n in allowed_from}
    if cur_op is not None:
        p = core.op_place(cur_op)
        vals = valueflow.values_at_term(f, at, e.block, p.l) if p is not None else {None}
    else:
        doms = [ld for ld in loads if f.dominates(ld.block, e.block)]
        near = [ld for ld in doms if all(f.dominates(o.block, ld.block) for o in doms)]
        if not near:
            rep.ob("R06.3", "from|" + key, False, "no lifecycle load dominates this store", e.where())
            return
        vals = valueflow.values_at_term(f, at, e.block, ("ghost", near[0].block))
    name = {int(v): n for n, v in consts.items()}
    bad = sorted(str(name.get(v, v)) for v in vals if v not in allowed_vals)
    rep.ob("R06.3", "from|" + key, bool(vals) and not bad,
           "transition must start only from %s; possible source states here: %s" % (sorted(allowed_from), bad), e.where())


def _read_only_store_guarded(rep, f, e, C):
    """read_only.store(x) with non-constant x: every path to the store either took the x==true edge
    or passed a lifecycle load whose `!= ACTIVE` edge cannot reach the store."""
    xp = core.op_place(e.args[1])
    src = f.slice_back_local(xp.l)
    arg_locals = {o[1] for o in src if o[0] == "arg"}
    der = f.derived_locals(list(arg_locals), include_call_results=False)
    true_targets = set()
    for b in f.live_blocks():
        t = f.term(b)
        if t["k"] == "switch":
            p = core.op_place(t["o"])
            if p is not None and p.l in der and [v for v, _ in t["v"]] == ["0"]:
                true_targets.add(t["else"])
    loads = C.lifecycle_loads(f)
    load_blocks = {l.block for l in loads}
    ok1 = f.must_pass(true_targets | load_blocks, [e.block]) and bool(loads)
    # the not-ACTIVE edge of the comparison must not reach the store
    ok2 = False
    for ld in loads:
        der2 = f.derived_locals([ld.dest.l], include_call_results=False)
        for b in f.live_blocks():
            for st in f.stmts(b):
                if st[0] == "A" and st[2]["k"] == "bin" and st[2]["op"] in ("Ne", "Eq"):
                    a, bb = st[2]["a"], st[2]["b"]
                    ops = [core.op_place(a), core.op_place(bb)]
                    cd = [anda.const_def(x)[0] for x in (a, bb)]
                    if any(p is not None and p.l in der2 for p in ops) and any((c or "").endswith("LIFECYCLE_ACTIVE") for c in cd):
                        res = st[1]["l"]
                        t = f.term(b)
                        if t["k"] == "switch" and core.op_place(t["o"]) is not None and core.op_place(t["o"]).l == res:
                            zero = dict(t["v"]).get("0")
                            nonzero = t["else"]
                            not_active = nonzero if st[2]["op"] == "Ne" else zero
                            if not_active is not None and e.block not in f.reachable_from([not_active]):
                                ok2 = True
    rep.ob("R06.3", "read_only-nonconst|%s" % f.path, ok1 and ok2,
           "read_only.store(<caller value>) must be refused unless lifecycle == ACTIVE (true-edge or lifecycle test on every path)",
           e.where())
