"""C08 — wrapper writes are atomic under crashes; garbage collection is safe.  (DESIGN §4 C08)"""
import re

from lib import core, valueflow
from lib.report import CheckerFault
from . import ostore
from .c06_db import _bool_switch

EXPLAIN = (
    "Static analysis over rustc MIR of anda_object_store (sidecar.rs, lib.rs, encryption.rs; fault.rs excluded): R08.1 who-may-write - the only backend write of a "
    "`meta/` path is the commit put in update_meta_with, the only delete of it is in delete_object, every other put/copy destination is a generation path whose generation "
    "comes from new_generation() (fresh, immutable), deletes of payloads go through best_effort_delete (after the commit) or the collector; R08.2 payload -> pointer -> reclaim "
    "ordering in update_meta_with / delete_object / rename; R08.3 the in-flight registration is taken before the first backend write of a generation and is alive until the pointer "
    "commit returns (or stored in the uploader); R08.4 every collector delete is dominated by the not-in-flight and not-referenced edges, too-young generations and undecodable "
    "commit points never become candidates; R08.5 read paths re-resolve a stale pointer at most once. Not decided: byte-level old-or-new equality after each crash prefix.")

SC = ostore.SC


def fcalls(f):
    """Invocations of a generic callback parameter (`f(..)`): FnOnce/AsyncFnOnce calls on a type parameter."""
    return [e for e in f.calls() if re.search(r"ops::(async_)?function::(Async)?Fn(Once|Mut)?::(async_)?call(_once|_mut)?$", e.callee or "")
            and re.fullmatch(r"&?(mut )?[A-Z]\w?", (e.finfo or {}).get("self", "").strip() or "-")]


def find_body(prog, root, pred):
    for b in ostore.closure_bodies(prog, root):
        if pred(b):
            return b
    return None


def run(rep, tier):
    prog = ostore.load()
    rep.not_decided = "byte-level old-or-new equality after each crash prefix; legacy layout migration content; cross-process races (single-writer contract)"
    rep.assumptions = ["rustc MIR and callee resolution", "backend puts are atomic", "moka and_try_compute_with serializes per key", "guard released at Drop"]

    # ------------------------------------------------------------------ R08.1 who may write what
    rep.rule("R08.1", "who-may-write: meta/ only by the commit put (update_meta_with) and delete_object; other puts/copies target fresh generation paths only", floor=12)
    events = ostore.backend_events(prog, ostore.WRITE_METHODS)
    gen_writers = set()
    for (f, e, method) in events:
        outer = prog.outer_fn(f).path
        short = outer.replace("anda_object_store::", "")
        rep.saw(f, 1)
        if method in ("put_part", "complete", "abort"):
            ok = "Uploader" in outer
            rep.ob("R08.1", "upload-part|%s|%s" % (method, short), ok, "multipart part/complete/abort only inside the uploader wrappers", e.where())
            continue
        argi = 2 if method.startswith("copy") or method.startswith("rename") else 1
        org = ostore.path_origin(prog, f, e.args[argi])
        kind = "delete" if method.startswith("delete") else "put"
        key = "%s|%s|%s" % (kind, "+".join(sorted(org)), short)
        if org == {"meta_path"}:
            allowed = {"put": SC + "::update_meta_with", "delete": SC + "::delete_object"}[kind]
            rep.ob("R08.1", key, outer == allowed, "a backend %s of the commit point meta/<loc> is only allowed in %s" % (kind, allowed), e.where())
        elif org == {"generation_path"} and kind == "put":
            gp = [o[1] for o in f.slice_back_op(e.args[argi]) if o[0] == "call" and o[1].name.endswith("::generation_path")]
            fresh = bool(gp) and all(ostore.fresh_generation(prog, g.fn, g) for g in gp)
            # a path computed in the parent and captured: resolve there
            if not gp:
                fresh = _captured_gen_path_fresh(prog, f, e.args[argi])
            gen_writers.add(short)
            rep.ob("R08.1", key, fresh, "a payload write must target gen/<loc>/<generation> with the generation minted by new_generation() for this write", e.where())
        elif kind == "delete" and org == {"param"} and outer == SC + "::best_effort_delete":
            rep.ob("R08.1", key, True, "", e.where())
        elif kind == "delete" and outer == SC + "::collect_garbage":
            rep.ob("R08.1", key, True, "", e.where())          # decided by R08.4
        else:
            rep.ob("R08.1", key, False, "backend %s with path origin %s in %s is not in the confirmed who-may-write table "
                   "(payload/legacy paths of an existing document must never be written)" % (kind, sorted(org), short), e.where())
    # best_effort_delete callers
    for f in prog.fns.values():
        if not ostore.in_scope(f):
            continue
        for e in f.calls_named(r"SidecarStore::<T, M>::best_effort_delete$"):
            o = prog.outer_fn(f).path
            rep.ob("R08.1", "reclaim-caller|%s" % o.rsplit("::", 1)[1], o in (SC + "::update_meta_with", SC + "::delete_object"),
                   "best_effort_delete (payload reclaim) may only be called by the commit and delete protocols", e.where())

    # ------------------------------------------------------------------ R08.2 ordering
    rep.rule("R08.2", "payload -> pointer -> reclaim: f(..) before the metadata put, reclaim only after the compute section returned Ok; delete: pointer before payload; rename: copy Ok before delete; no payload write after the commit", floor=15)
    um = prog.fn(SC + "::update_meta_with")
    rep.saw(um, len(um.events))
    K = find_body(prog, prog.fn(SC + "::update_meta_with", body=False), lambda b: any(
        BACK and m == "put_opts" for (ff, BACK, m) in events if ff is b))
    if K is None:
        raise CheckerFault("anchor missing: commit closure of update_meta_with")
    rep.saw(K, len(K.events))
    fc = fcalls(K)
    mput = [e for (ff, e, m) in events if ff is K and m == "put_opts"]
    fetch = K.calls_named(r"SidecarStore::<T, M>::fetch_meta_bytes$")
    okf = set()
    for c in fc:
        okf |= set(K.result_edges(c)[0])
    rep.ob("R08.2", "f-before-pointer|update_meta_with", len(fc) >= 2 and bool(mput) and bool(okf) and K.must_pass(okf, [p.block for p in mput]),
           "the metadata put (commit point) must follow a successful f(..) (which writes the payload) on every path", mput[0].where() if mput else K.file)
    # no payload-class backend write after the pointer commit: whatever a wrapper method writes for the generation it is about to
    # publish (payload put, multipart completion, copy) is on the backend before update_meta_with returns - inside the compute
    # callback or before the call - never after it (a crash in between would leave a listed key whose generation does not exist)
    npw = 0
    for f in prog.fns.values():
        if not ostore.in_scope(f):
            continue
        ums = f.calls_named(r"SidecarStore::<T, M>::update_meta_with$")
        if not ums:
            continue
        after = set()
        for u in ums:
            after |= f.reachable_from([u.block]) - {u.block}
        late = [e for (ff, e, m) in events if ff is f and m not in ("delete", "delete_stream", "abort") and e.block in after]
        npw += 1
        rep.saw(f, len(ums))
        rep.ob("R08.2", "no-payload-write-after-commit|%s" % prog.outer_fn(f).path.replace("anda_object_store::", ""), not late,
               "a backend write of the new generation is issued after the metadata pointer was committed", late[0].where() if late else ums[0].where())
    if npw < 6:
        rep.fault("R08.2: only %d functions committing through update_meta_with found" % npw)
    rep.ob("R08.2", "fresh-read-before-f|update_meta_with", bool(fetch) and bool(fc) and all(K.must_pass([x.block for x in fetch], [c.block]) for c in fc)
           and not K.calls_named(r"moka::future::cache::Cache::<K, V, S>::get$"),
           "the current document is resolved from the backend (fetch_meta_bytes), not from the cache, before f(..) runs", K.file + ":%d" % K.line)
    # create => AlreadyExists before f(Some(cur))
    create_reads = _upvar_bool_switches(K, "create")
    some_calls = [c for c in fc if _arg_is_some(K, c)]
    ok = bool(some_calls) and bool(create_reads)
    for c in some_calls:
        good = False
        for (sb, ft, tt) in create_reads:
            if K.dominates(ft, c.block) and c.block not in K.reachable_from([tt]):
                good = True
        ok = ok and good
    rep.ob("R08.2", "create-refuses-existing|update_meta_with", ok, "with `create`, an existing decodable document returns AlreadyExists before f(Some(cur)) can run",
           (some_calls[0].where() if some_calls else K.file))
    # PutMode::Create only on the NotFound edge
    creates = []
    for b in K.live_blocks():
        for st in K.stmts(b):
            if st[0] == "A" and st[2]["k"] == "agg" and st[2]["a"].get("def") == "object_store::PutMode" and st[2]["a"].get("v") == "Create":
                creates.append(b)
    nf = [m["NotFound"] for (sb, place, adt, m, els) in K.variant_edges() if adt == "object_store::Error" and "NotFound" in m]
    rep.ob("R08.2", "create-mode-on-notfound|update_meta_with", bool(creates) and bool(nf) and all(any(K.dominates(t, b) for t in nf) for b in creates),
           "PutMode::Create is forwarded to the metadata put only when no document exists", K.file + ":%d" % K.line)
    # reclaim after the compute section returned Ok
    comp = um.calls_named(r"and_try_compute_with$")
    bed = um.calls_named(r"best_effort_delete$")
    okc = set()
    for c in comp:
        okc |= set(um.result_edges(c)[0])
    rep.ob("R08.2", "reclaim-after-commit|update_meta_with", bool(comp) and bool(bed) and bool(okc) and um.must_pass(okc, [b.block for b in bed]),
           "the replaced payload is deleted only after the per-key compute section (the pointer switch) returned Ok", bed[0].where() if bed else um.file)
    # no reclaim inside the section
    rep.ob("R08.2", "no-reclaim-in-section|update_meta_with", not K.calls_named(r"best_effort_delete$") and not [1 for (ff, e, m) in events if ff is K and m == "delete"],
           "nothing is deleted inside the commit section", K.file + ":%d" % K.line)
    # delete_object
    do = prog.fn(SC + "::delete_object")
    rep.saw(do, len(do.events))
    comp = do.calls_named(r"and_try_compute_with$")
    bed = do.calls_named(r"best_effort_delete$")
    okc = set()
    for c in comp:
        okc |= set(do.result_edges(c)[0])
    rep.ob("R08.2", "pointer-before-payload|delete_object", bool(comp) and bool(bed) and bool(okc) and do.must_pass(okc, [b.block for b in bed]),
           "delete removes the commit point first; the payload is reclaimed only after that succeeded", bed[0].where() if bed else do.file)
    # rename in both wrappers
    for w in ("MetaStore", "EncryptedStore"):
        r = ostore.wrapper_fn(prog, w, "rename_opts")
        rep.saw(r, len(r.events))
        cp = r.calls_named(r"as object_store::ObjectStore>::copy_opts$|object_store::ObjectStore::copy_opts$")
        dl = r.calls_named(r"SidecarStore::<T, M>::delete_object$")
        eq = r.calls_named(r"PartialEq::eq$|PartialEq<.*>>::eq$")
        okc = set()
        for c in cp:
            okc |= set(r.result_edges(c)[0])
        ok = bool(cp) and bool(dl) and bool(okc) and r.must_pass(okc, [d.block for d in dl])
        rep.ob("R08.2", "copy-before-delete|%s::rename_opts" % w, ok, "the source is deleted only on the Ok edge of the copy", dl[0].where() if dl else r.file)
        ok = False
        for q in eq:
            ft, tt = _bool_switch(r, q)
            if tt is not None and not (r.reachable_from([tt]) & {x.block for x in cp + dl}):
                ok = True
        rep.ob("R08.2", "self-rename-untouched|%s::rename_opts" % w, ok, "the `from == to` edge reaches neither copy nor delete", r.file + ":%d" % r.line)

    # ------------------------------------------------------------------ R08.3 in-flight guard
    rep.rule("R08.3", "in-flight registration taken before the first backend write of the generation and alive until the pointer commit returns / stored in the uploader", floor=7)
    IFG = r"anda_object_store::sidecar::InFlightGuard"
    for w in ("MetaStore", "EncryptedStore"):
        for method in ("put_opts", "copy_opts"):
            f = ostore.wrapper_fn(prog, w, method)
            rep.saw(f, len(f.events))
            acq = f.calls_named(r"SidecarStore::<T, M>::track_in_flight$", r"SidecarStore::<T, M>::copy_payload$")
            ins, outs = core.guard_flow(f, acq, IFG)
            um_ev = f.calls_named(r"SidecarStore::<T, M>::update_meta_with$")
            held = bool(acq) and bool(um_ev) and all(ins.get(u.block) for u in um_ev)
            # alive at the Ok edge of the commit (not dropped while the commit is in flight)
            for u in um_ev:
                for t in f.result_edges(u)[0]:
                    held = held and bool(ins.get(t))
            rep.ob("R08.3", "held-across-commit|%s::%s" % (w, method), held,
                   "the InFlightGuard must be alive from before the commit call until it returned", (um_ev[0].where() if um_ev else f.file))
            if method == "put_opts":
                # registered before the payload-writing closure can run
                cr = [c for c in f.creates()]
                rep.ob("R08.3", "registered-before-write|%s::%s" % (w, method), bool(acq) and all(f.must_pass([a.block for a in acq], [u.block]) for u in um_ev),
                       "track_in_flight precedes the commit call (whose closure writes the payload)", acq[0].where() if acq else f.file)
        f = ostore.wrapper_fn(prog, w, "put_multipart_opts")
        rep.saw(f, len(f.events))
        acq = f.calls_named(r"SidecarStore::<T, M>::track_in_flight$")
        bw = [e for (ff, e, m) in events if ff is f and m == "put_multipart_opts"]
        ok = bool(acq) and bool(bw) and f.must_pass([a.block for a in acq], [b.block for b in bw])
        # guard moved into the uploader aggregate
        stored = False
        if acq:
            der = f.derived_locals([acq[0].dest.l], include_call_results=False)
            for b in f.live_blocks():
                for st in f.stmts(b):
                    if st[0] == "A" and st[2]["k"] == "agg" and "Uploader" in (st[2]["a"].get("def") or ""):
                        for fi, o in zip(st[2]["a"]["fields"], st[2]["ops"]):
                            p = core.op_place(o)
                            if p is not None and p.l in der and "m" in o:
                                stored = True
        rep.ob("R08.3", "registered-and-stored|%s::put_multipart_opts" % w, ok and stored,
               "track_in_flight precedes the backend multipart creation and the guard is moved into the uploader", acq[0].where() if acq else f.file)
    cp = prog.fn(SC + "::copy_payload")
    rep.saw(cp, len(cp.events))
    acq = cp.calls_named(r"SidecarStore::<T, M>::track_in_flight$")
    bw = [e for (ff, e, m) in events if ff is cp and m == "copy_opts"]
    ins, outs = core.guard_flow(cp, acq, IFG)
    rep.ob("R08.3", "registered-before-copy|copy_payload", bool(acq) and bool(bw) and cp.must_pass([a.block for a in acq], [b.block for b in bw]) and all(ins.get(b.block) for b in bw),
           "the target generation is registered in-flight before (and during) the backend copy", bw[0].where() if bw else cp.file)

    # ------------------------------------------------------------------ R08.4 collector
    rep.rule("R08.4", "collect_garbage: every delete lies on the not-in-flight and not-referenced edges; too-young and Unknown entries never become candidates", floor=6)
    gc = prog.fn(SC + "::collect_garbage")
    rep.saw(gc, len(gc.events))
    dels = [e for (ff, e, m) in events if ff is gc and m == "delete"]
    inf = gc.calls_named(r"SidecarStore::<T, M>::is_in_flight$")
    ref = gc.calls_named(r"SidecarStore::<T, M>::is_referenced$")
    loop_heads = {e.block for e in gc.calls_named(r"Iterator::next$|TryStreamExt::try_next$|StreamExt::next$")}
    for d in dels:
        ok_ref = False
        for r in ref:
            ft, tt = _bool_switch_deep(gc, r)
            if ft is not None and gc.must_pass([r.block], [d.block]) and d.block not in gc.reachable_from([tt], avoid=loop_heads):
                ok_ref = True
        rep.ob("R08.4", "delete-after-recheck|collect_garbage", ok_ref,
               "the commit point is re-read (is_referenced) right before each delete and the `referenced` edge cannot reach it", d.where())
        ok_inf = False
        for i in inf:
            ft, tt = _bool_switch(gc, i)
            if tt is not None and d.block not in gc.reachable_from([tt], avoid=loop_heads):
                ok_inf = True
        rep.ob("R08.4", "delete-not-in-flight|collect_garbage", ok_inf and bool(inf), "the `is_in_flight` edge cannot reach the delete", d.where())
        # order of the two tests: a writer releases its in-flight registration only after its pointer commit returned,
        # so "not in flight" followed by "not referenced" proves the payload is garbage; the other order leaves a window
        # (re-read sees nothing, writer commits and unregisters, registry is empty) in which a committed payload is deleted.
        late = [i for i in inf for r in ref if gc.must_pass([r.block], [d.block])
                and i.block in gc.reachable_from(gc.succ[r.block], avoid=loop_heads)]
        rep.ob("R08.4", "in-flight-before-recheck|collect_garbage", bool(inf) and bool(ref) and not late,
               "the in-flight registry must be consulted before the final commit-point re-read (is_referenced), never after it",
               late[0].where() if late else d.where())
    pushes = gc.calls_named(r"Vec::<T, A>::push$")
    unk = [m["Unknown"] for (sb, place, adt, m, els) in gc.variant_edges() if adt and adt.endswith("PayloadRef") and "Unknown" in m]
    ok = bool(unk) and bool(pushes) and not any(gc.reachable_from([t], avoid=loop_heads) & {p.block for p in pushes} for t in unk)
    rep.ob("R08.4", "unknown-never-candidate|collect_garbage", ok, "a key whose commit point does not decode (Unknown) contributes no deletion candidate", gc.file + ":%d" % gc.line)
    # exact generation match is never a candidate: Generation edge with equal generation -> continue (structural: the Generation arm compares)
    gens = [m["Generation"] for (sb, place, adt, m, els) in gc.variant_edges() if adt and adt.endswith("PayloadRef") and "Generation" in m]
    cmp_ok = False
    for t in gens:
        r = gc.reachable_from([t], avoid=loop_heads)
        if any(e.block in r for e in gc.calls_named(r"PartialEq.*::eq$")):
            cmp_ok = True
    rep.ob("R08.4", "referenced-generation-compared|collect_garbage", cmp_ok, "the marked generation is compared with the candidate before it can be pushed", gc.file + ":%d" % gc.line)
    # too-young generations: a `ts >= floor` comparison guards the candidate push in the generation loop
    young = False
    for b in gc.live_blocks():
        for st in gc.stmts(b):
            if st[0] == "A" and st[2]["k"] == "bin" and st[2]["op"] in ("Ge", "Gt", "Lt", "Le"):
                t = gc.term(b)
                if t["k"] == "switch" and core.op_place(t["o"]) is not None and core.op_place(t["o"]).l == st[1]["l"]:
                    names = set()
                    for o in (st[2]["a"], st[2]["b"]):
                        p = core.op_place(o)
                        if p is not None:
                            names.add(gc.var_name(p.l))
                            for (db, di, kind, data) in gc.defs.get(p.l, []):
                                if kind == "assign" and data[2]["k"] == "use":
                                    q = core.op_place(data[2]["o"])
                                    if q is not None:
                                        names.add(gc.var_name(q.l))
                    if "floor_ms" in names:
                        tt = t["else"]
                        if not (gc.reachable_from([tt], avoid=loop_heads) & {p.block for p in pushes}):
                            young = True
    rep.ob("R08.4", "young-generation-skipped|collect_garbage", young, "generations minted at/after the start of the collection are skipped (ts >= floor edge reaches no candidate push)", gc.file + ":%d" % gc.line)

    # ------------------------------------------------------------------ R08.6 backend failures are not answers
    rep.rule("R08.6", "no backend failure is turned into an answer: the Err edge of every object_store::Result test reaches an Ok return only "
                      "through an arm naming a specific error variant (mark phase, re-check, listing, reads)", floor=12)
    ostore.error_swallow_rules(rep, "R08.6", prog)

    # ------------------------------------------------------------------ R08.5 single retry
    rep.rule("R08.5", "read paths re-resolve a stale pointer at most once (refresh_meta only while the retried flag is false)", floor=5)
    targets = [("MetaStore", "get_opts"), ("MetaStore", "get_ranges"), ("EncryptedStore", "get_opts"), ("EncryptedStore", "get_ranges")]
    fns = [(w + "::" + m, ostore.wrapper_fn(prog, w, m)) for w, m in targets] + [("copy_payload", cp)]
    for name, f in fns:
        rep.saw(f, len(f.events))
        rf = f.calls_named(r"SidecarStore::<T, M>::refresh_meta$")
        # the retry latch: a bool local initialised false and set true (whatever it is called)
        rl = []
        for l in range(len(f.locals)):
            if f.locals[l] != "bool":
                continue
            consts = {(core.op_const(d[3][2]["o"]) or {}).get("int") for d in f.defs.get(l, []) if d[2] == "assign" and d[3][2]["k"] == "use"
                      and core.op_const(d[3][2]["o"]) is not None}
            if {"0", "1"} <= consts:
                rl.append(l)
        ok = bool(rf) and bool(rl)
        if ok:
            at = valueflow.analyse(f)
            for r in rf:
                ok = ok and any(valueflow.values_at_term(f, at, r.call_block, l) == {1} for l in rl)
            # and the flag is false when first tested
        rep.ob("R08.5", "single-retry|%s" % name, ok, "refresh_meta runs only after the retried flag was set on this path, and a second NotFound returns the error", (rf[0].where() if rf else f.file))
        # the NotFound retry never falls back to a different path helper
        rep.ob("R08.5", "no-path-fallback|%s" % name, not f.calls_named(r"SidecarStore::<T, M>::legacy_path$"),
               "read paths resolve the payload through payload_path only (no fallback to the legacy path)", f.file + ":%d" % f.line)
    return rep.finish(EXPLAIN)


def _captured_gen_path_fresh(prog, f, op, depth=0):
    """The path operand is a captured variable: find the generation_path call in an ancestor and check its generation."""
    for o in f.slice_back_op(op):
        if o[0] == "upvar" and depth < 4:
            parent = prog.fns.get(f.parent)
            if parent is None:
                continue
            for ce in parent.creates():
                if ce.cid == f.id:
                    for i, uv in enumerate(f.upvars):
                        if uv["n"] == o[1] and i < len(ce.ops):
                            gp = [x[1] for x in parent.slice_back_op(ce.ops[i]) if x[0] == "call" and x[1].name.endswith("::generation_path")]
                            if gp:
                                return all(ostore.fresh_generation(prog, g.fn, g) for g in gp)
                            return _captured_gen_path_fresh(prog, parent, ce.ops[i], depth + 1)
    return False


def _upvar_bool_switches(K, name):
    """Switches on a copy of the captured bool `name`: list of (block, false_target, true_target)."""
    out = []
    reads = set()
    for b in K.live_blocks():
        for st in K.stmts(b):
            if st[0] == "A" and st[2]["k"] == "use":
                p = st[2]["o"].get("c") or st[2]["o"].get("m")
                if p and any(isinstance(e, dict) and e.get("n") == name for e in (p.get("p") or [])):
                    reads.add(st[1]["l"])
    for b in K.live_blocks():
        t = K.term(b)
        if t["k"] == "switch":
            p = core.op_place(t["o"])
            if p is not None and p.l in reads and [v for v, _ in t["v"]] == ["0"]:
                out.append((b, t["v"][0][1], t["else"]))
    return out


def _arg_is_some(K, c):
    for a in c.args[1:]:
        for o in K.slice_back_op(a, through=lambda ev: False):
            if o[0] == "agg" and o[1][2]["a"].get("v") == "Some":
                return True
    return False


def _bool_switch_deep(f, e):
    """Like _bool_switch, but the bool is the payload of a Result produced by an awaited call (`x.await?`)."""
    src = e.poll_dest.l if e.poll_dest is not None else e.dest.l
    der = f.derived_locals([src], call_filter=lambda t: t["f"].get("path") in core.VARIANT_PRESERVING)
    for b in sorted(f.live_blocks()):
        t = f.term(b)
        if t["k"] != "switch":
            continue
        p = core.op_place(t["o"])
        if p is None or p.l not in der:
            continue
        if f.locals[p.l] != "bool":
            continue
        vals = dict(t["v"])
        if "0" in vals:
            return (vals["0"], t["else"])
    return (None, None)
