"""C17 — a KML statement is all-or-nothing and versions each element once.  (DESIGN §4 C17)"""
import re

from lib import core, valueflow
from lib.report import CheckerFault
from . import nx

EXPLAIN = (
    "Static analysis over rustc MIR of anda_cognitive_nexus: R17.1 in Session::execute every arm acquires the nexus lock first (exclusive for KML, shared for KQL/META), resolves authority "
    "and passes the gate under it, and holds the guard across the execute call; kml::execute has exactly the confirmed callers; R17.2 kql::execute reaches no store write primitive at all and "
    "meta::execute reaches one only through the PREVIEW entry, whose two dry-run operands are the constant `true`; the dry-run edge of Transaction::commit reaches the shell removal and no "
    "put / journal / version record / flush; R17.3 every refusal after Transaction::begin removes the shells: the planning failure edge of kml::execute passes abort, and every error exit of "
    "commit that precedes the first write passes discard_shells (this rule found the defect repaired by fix d4f7213); R17.4 an element row's version is assigned only by the transactional "
    "writer (from the value commit computes: 1 or loaded+1, once per staged element) and by the stamping helpers of the non-transactional Store::insert/update; R17.5 commit order: checks -> "
    "writes -> journal -> governance audit -> approval spend -> flush, and the sequence number has one allocation site. "
    "Not decided: that nothing observable changed over the whole state space, partial commit after a mid-loop storage failure, reader isolation under real schedules. "
    "Observation recorded, not decided: PREVIEW KML / PREVIEW IMPORT run the dry-run path under the shared lock, so its transient pending shells and sequence allocation overlap other readers.")

TX = nx.N + "::tx::Transaction"


def _guarding_variants(g, b, adt_prefix="anda_kip::ast::"):
    """(adt, variant) pairs whose match edge dominates block b in g (else-edges excluded)."""
    out = set()
    for (sb, place, adt, m, els) in g.variant_edges():
        if not adt or not adt.startswith(adt_prefix):
            continue
        for v, tb in m.items():
            if tb != els and (tb == b or g.dominates(tb, b)) and sum(1 for t in m.values() if t == tb) == 1:
                out.add((adt, v))
    return out


def _tx_under_exclusive(rep, prog, se, arm, R, locks, ex):
    """A read arm (KQL / META) whose executor can reach Transaction::begin - a dry run plans a real transaction: sequence
    allocation, pending shells inserted and removed - must hold the lock *exclusively* for exactly those commands: other
    readers would see the shells.  The command variants under which the executor reaches the transaction (callee side) are
    compared with the variants Session::execute tests before it chooses the lock mode (caller side)."""
    begin = {f.id for f in prog.fns.values() if f.path == nx.N + "::tx::Transaction::begin"}
    if not begin:
        raise CheckerFault("anchor missing: tx::Transaction::begin")
    back = set()
    for fid in prog.fns:
        if prog.reach_set([fid]) & begin:
            back.add(fid)
    # every way of reaching the transaction, with the command variants that guard it (one set per call path); a callee entered
    # with a constant bool argument is only followed along the edges that constant selects (capsule::import(.., dry_run = true))
    chains = set()

    def live_under(h, hb, consts):
        """blocks of hb reachable when the named bool parameters have the given constant values"""
        forced = {}
        for blk in hb.live_blocks():
            t = hb.term(blk)
            if t["k"] != "switch":
                continue
            for o in hb.slice_back_op(t["o"], through=lambda ev: False):
                nm = o[1] if o[0] == "upvar" else (hb.var_name(o[1]) if o[0] == "arg" else None)
                if nm in consts:
                    val = consts[nm]
                    tgt = dict((int(x), y) for x, y in t["v"]).get(val, t.get("else"))
                    forced[blk] = tgt
        seen_, todo = set(), [0]
        succ = hb.succ
        while todo:
            x = todo.pop()
            if x in seen_:
                continue
            seen_.add(x)
            nxt_ = [forced[x]] if x in forced else succ[x]
            todo.extend(y for y in nxt_ if y is not None)
        return seen_

    def walk(fid, acc, consts, depth, stack):
        if fid in begin:
            chains.add(frozenset(acc))
            return
        if depth > 12 or fid in stack or len(chains) > 64:
            return
        h = prog.fns[fid]
        hb = prog.async_body(h) or h
        live = live_under(h, hb, consts) if consts else None
        # an awaited async fn shows up twice (the call creating the future, and the poll of its body): the body is entered
        # through the creating call, which carries the arguments
        via_fn = set()
        for e in hb.events:
            for m_ in prog.callee_nodes(e):
                if m_ in prog.fns and prog.fns[m_].kind != "Closure":
                    ab = prog.async_body(prog.fns[m_])
                    if ab is not None:
                        via_fn.add(ab.id)
        for e in hb.events:
            if e.kind == "ref" or (live is not None and e.block not in live and e.call_block not in live):
                continue
            nxt = [n for n in prog.callee_nodes(e) if (n in back or n in begin) and n in prog.fns]
            if not nxt:
                continue
            guards = _guarding_variants(hb, e.block) | _guarding_variants(hb, e.call_block)
            for n in nxt:
                callee = prog.fns[n]
                if n in via_fn and callee.kind == "Closure":
                    continue
                cc = {}
                if callee.kind != "Closure":
                    names = {d["p"]["l"]: d["n"] for d in callee.dbg if "p" in d and not d["p"].get("p") and d["p"]["l"] <= callee.argc}
                    for i, a_ in enumerate(e.args):
                        k_ = a_.get("k") if isinstance(a_, dict) else None
                        if k_ and k_.get("ty") == "bool" and k_.get("int") in ("0", "1") and (i + 1) in names:
                            cc[names[i + 1]] = int(k_["int"])
                walk(n, acc | guards, cc, depth + 1, stack | {fid})

    for x in ex:
        for n in prog.callee_nodes(x):
            if n in back and n in prog.fns:
                walk(n, frozenset(), {}, 0, frozenset())
    key = "transaction-under-exclusive-lock|%s" % arm
    if not chains:
        rep.ob("R17.1", key, True, "the %s executor reaches no transaction" % arm, se.file)
        return
    fmt = lambda c: "{" + ", ".join(sorted("%s::%s" % (a.rsplit("::", 1)[1], v) for a, v in c)) + "}"
    rep.note("transaction-reaching-variants:" + arm, sorted(fmt(c) for c in chains))
    aw = {b for e in locks if e.callee.endswith("::write") for b in (e.block, e.call_block)}
    exb = [x.block for x in ex]
    if aw and all(se.must_pass(aw, [b]) for b in exb):
        rep.ob("R17.1", key, True, "always exclusive", se.file)
        return
    bad = []
    for chain in sorted(chains, key=fmt):
        best, bestT = None, set()
        for (sb, place, adt, m, els) in se.variant_edges():
            if sb not in R and not any(t in R for t in m.values()):
                continue
            for v_, tb in m.items():
                if tb == els or (adt, v_) not in chain:
                    continue
                inarm = {(a, x) for (a, x) in _guarding_variants(se, tb) if a != "anda_kip::ast::Command"}
                if inarm and inarm <= chain and len(inarm) > len(bestT):
                    best, bestT = tb, inarm
        if best is None or not aw:
            bad.append("%s: the arm takes the shared lock without testing for it" % fmt(chain))
            continue
        r = valueflow.reachable_ps(se, best, avoid=aw)
        if any(b_ in r for b_ in exb):
            bad.append("%s: after testing %s the executor is still reachable without the exclusive lock" % (fmt(chain), fmt(bestT)))
    rep.ob("R17.1", key, not bad,
           "the %s executor reaches Transaction::begin (a dry run plans a real transaction: sequence allocation, pending shells) under the shared lock, "
           "so a concurrent reader sees them - %s" % (arm, "; ".join(bad)), (ex[0].where() if ex else se.file))


def run(rep, tier):
    prog = nx.load()
    rep.not_decided = "nothing observable changed over the whole space; partial commit after a mid-loop write failure (commit has no rollback of rows already written); reader isolation under real schedules"
    rep.assumptions = ["rustc MIR and callee resolution", "tokio RwLock is a lock; guard released at Drop", "anda_db Collection methods are the only storage primitives"]
    writes = prog.reaching(nx.is_write)

    # ------------------------------------------------------------------ R17.1
    rep.rule("R17.1", "Session::execute: lock (exclusive for KML, shared for KQL/META) -> authority -> gate -> execute with the guard held; kml::execute callers confirmed", floor=10)
    se = prog.fn(nx.SESSION_EXEC)
    rep.saw(se, len(se.events))
    arms = {}
    for (sb, place, adt, m, els) in se.variant_edges():
        if adt == "anda_kip::ast::Command":
            for v, tb in m.items():
                others = {t for v2, t in m.items() if t != tb}
                arms[v] = se.reachable_from([tb], avoid={sb} | others)
    want = {"Kml": ("write", r"^anda_cognitive_nexus::kml::execute$"), "Kql": ("read", r"^anda_cognitive_nexus::kql::execute$"), "Meta": ("read", r"^anda_cognitive_nexus::meta::execute$")}
    GT = r"tokio::sync::rwlock::(read_guard::RwLockReadGuard|write_guard::RwLockWriteGuard)"
    for v, (mode, erx) in want.items():
        R = arms.get(v, set())
        locks = [e for e in se.calls_named(r"tokio::sync::rwlock::RwLock::<T>::(read|write)$") if e.block in R and "lock" in se.slice_fields(e.args[0])]
        au = [e for e in se.calls_named(r"nexus::Session::authority$") if e.block in R]
        ga = [e for e in se.calls_named(r"nexus::Session::gate$") if e.block in R]
        ex = [e for e in se.calls_named(erx) if e.block in R]
        # KML must be exclusive; for the read arms the shared mode is the normal case and the exclusive one is merely stronger
        ok = bool(locks) and all(e.callee.endswith("::write") or (mode == "read" and e.callee.endswith("::read")) for e in locks)
        rep.ob("R17.1", "lock-mode|%s" % v, ok, "the %s arm must take the nexus lock with .%s() (found %s)" % (v, mode, [e.callee.rsplit("::", 1)[1] for e in locks]), (locks[0].where() if locks else se.file))
        if mode == "read":
            _tx_under_exclusive(rep, prog, se, v, R, locks, ex)
        okg = set()
        for g in ga:
            okg |= set(se.result_edges(g)[0])
        oka = set()
        for a in au:
            oka |= set(se.result_edges(a)[0])
        ok = bool(locks) and bool(au) and bool(ga) and bool(ex) and all(se.must_pass([l.block for l in locks], [a.block]) for a in au) and \
            bool(oka) and all(se.must_pass(oka, [g.block]) for g in ga) and bool(okg) and all(se.must_pass(okg, [x.block]) for x in ex)
        rep.ob("R17.1", "lock-authority-gate-execute|%s" % v, ok, "in the %s arm: lock, then authority (Ok), then gate (Ok), then execute, on every path" % v, (ex[0].where() if ex else se.file))
        ins, outs = core.guard_flow(se, locks, GT)
        held = bool(ex) and all(ins.get(x.block) for x in ex) and all(ins.get(a.block) for a in au)
        rep.ob("R17.1", "guard-held|%s" % v, held, "the lock guard is alive while authority is resolved and while the command executes", (ex[0].where() if ex else se.file))
    kmlx = {f.id for f in prog.fns.values() if f.path == nx.N + "::kml::execute"}
    callers = {nx.short(prog.outer_fn(f).path) for (f, e) in nx.callers_of(prog, kmlx)}
    allowed = {nx.short(nx.SESSION_EXEC), "meta::inspect::preview"}
    rep.ob("R17.1", "who-may-call|kml::execute", callers <= allowed and nx.short(nx.SESSION_EXEC) in callers, "kml::execute callers %s (allowed %s)" % (sorted(callers), sorted(allowed)), "rs/anda_cognitive_nexus/src/kml/mod.rs")

    # ------------------------------------------------------------------ R17.2
    rep.rule("R17.2", "reads do not write: kql::execute effect-free; meta::execute only through PREVIEW with constant dry-run operands; commit's dry-run edge writes nothing but the shell removal", floor=5)
    kq = prog.fn(nx.N + "::kql::execute", body=False)
    path = prog.find_path(kq.id, nx.is_write)
    rep.ob("R17.2", "effect-free|kql::execute", path is None, "kql::execute (run under the shared lock) reaches a store write: %s" % " -> ".join(nx.short(p) for p in (path or [])[:10]), kq.file + ":%d" % kq.line)
    me = prog.fn(nx.N + "::meta::execute", body=False)
    prev = prog.fn(nx.N + "::meta::inspect::preview", body=False)
    pstop = {prev.id} | {k.id for k in prog.closures_of(prev)}
    path = prog.find_path(me.id, nx.is_write, stop=lambda n, f: n in pstop)
    rep.ob("R17.2", "effect-free-except-preview|meta::execute", path is None,
           "meta::execute reaches a store write outside the PREVIEW entry: %s" % " -> ".join(nx.short(p) for p in (path or [])[:10]), me.file + ":%d" % me.line)
    pb = prog.fn(nx.N + "::meta::inspect::preview")
    rep.saw(pb, len(pb.events))
    ok_dry = False
    for b in pb.live_blocks():
        for st in pb.stmts(b):
            if st[0] == "A" and st[2]["k"] == "agg" and (st[2]["a"].get("def") or "").endswith("RequestOptions"):
                m = dict(zip(st[2]["a"]["fields"], st[2]["ops"]))
                for o in pb.slice_back_op(m.get("dry_run"), through=lambda ev: False) if m.get("dry_run") else []:
                    if o[0] == "agg" and o[1][2]["a"].get("v") == "Some":
                        k = o[1][2]["ops"][0].get("k") or {}
                        if k.get("int") == "1":
                            ok_dry = True
    kc = pb.calls_named(r"^anda_cognitive_nexus::kml::execute$")
    req_ok = False
    for e in kc:
        # the request handed to kml::execute is the one whose options were set above
        req_ok = any("options" in pb.slice_fields(a) or True for a in e.args)
    rep.ob("R17.2", "preview-dry-run-constant|kml", ok_dry and bool(kc) and req_ok, "PREVIEW KML builds its request with options.dry_run = Some(true) (a constant)", (kc[0].where() if kc else pb.file))
    ci = pb.calls_named(r"^anda_cognitive_nexus::capsule::import$")
    okc = bool(ci) and all(((e.args[3].get("k") or {}).get("int") == "1") for e in ci)
    rep.ob("R17.2", "preview-dry-run-constant|capsule", okc, "PREVIEW IMPORT CAPSULE calls capsule::import with dry_run = true (a constant)", (ci[0].where() if ci else pb.file))
    cm = prog.fn(TX + "::commit")
    rep.saw(cm, len(cm.events))
    dr = None
    for b in sorted(cm.live_blocks()):
        t = cm.term(b)
        if t["k"] == "switch":
            p = core.op_place(t["o"])
            if p is not None:
                for (db, di, kind, data) in cm.defs.get(p.l, []):
                    if kind == "assign" and data[2]["k"] == "use":
                        pl = data[2]["o"].get("c") or data[2]["o"].get("m")
                        if pl and any(isinstance(x, dict) and x.get("n") == "dry_run" for x in (pl.get("p") or [])):
                            dr = (dict(t["v"]).get("0"), t["else"])
    ok = False
    if dr and dr[0] is not None:
        r = cm.reachable_from([dr[1]], avoid=[dr[0]])
        evs = [e for e in cm.events if e.block in r and e.kind != "ref" and e.callee not in core.NOISE_CALLEES]
        bad = [e for e in evs if prog.event_in(e, writes) and not e.name.endswith("Transaction::discard_shells")]
        ds = [e for e in evs if e.name.endswith("Transaction::discard_shells")]
        ok = bool(ds) and not bad
        rep.ob("R17.2", "dry-run-edge|Transaction::commit", ok, "the dry-run edge of commit removes its shells and reaches no other store write (found %s)" % [nx.short(e.name) for e in bad][:4], cm.file + ":%d" % cm.line)
    else:
        rep.ob("R17.2", "dry-run-edge|Transaction::commit", False, "anchor: no branch on self.dry_run in commit", cm.file + ":%d" % cm.line)
    rep.note("observation-preview-under-shared-lock", "meta::inspect::preview runs Transaction::begin (sequence allocation) and shell insert/remove under the shared lock; "
             "transient pending shells can overlap concurrent readers (schedule-dependent, not decided)")

    # ------------------------------------------------------------------ R17.3
    rep.rule("R17.3", "every refusal after Transaction::begin removes the shells: planning failure -> abort; commit error exits before the first write -> discard_shells", floor=4)
    ke = prog.fn(nx.N + "::kml::execute")
    rep.saw(ke, len(ke.events))
    pl = ke.calls_named(r"^anda_cognitive_nexus::kml::plan$")
    ab = ke.calls_named(r"tx::Transaction::abort$")
    errs = set()
    for e in pl:
        errs |= set(ke.result_edges(e)[1])
    rets = set(ke.return_blocks())
    ok = bool(pl) and bool(ab) and bool(errs) and not any(ke.reachable_from([t], avoid=[a.block for a in ab]) & rets for t in errs)
    rep.ob("R17.3", "plan-failure-aborts|kml::execute", ok, "the Err edge of plan(..) passes Transaction::abort before returning", (pl[0].where() if pl else ke.file))
    # commit: calls that can fail before the first durable write
    first_writes = [e for e in cm.calls() if re.search(r"Store>?::(remove_versions|journal|flush|put)$|Transaction::write$|GovernanceStore::record_mutation$|Approved::spend$", e.name)]
    ds = [e for e in cm.calls_named(r"Transaction::discard_shells$")]
    fw_blocks = {e.block for e in first_writes}
    pre = []
    for e in cm.calls():
        if e in first_writes or e in ds or e.callee in (core.TRY_BRANCH, core.FROM_RESIDUAL):
            continue
        ty = cm.locals[e.poll_dest.l] if e.poll_dest is not None else cm.locals[e.dest.l]
        if "core::result::Result<" not in ty:
            continue
        if cm.can_reach(fw_blocks, [e.block]):
            continue        # after a write: a storage failure, not a refusal
        if dr and e.block in cm.reachable_from([dr[1]], avoid=[dr[0]]):
            continue
        pre.append(e)
    rep.ob("R17.3", "pre-write-checks-present|Transaction::commit", len(pre) >= 1 and bool(first_writes), "anchor: %d fallible step(s) before the first write, %d write steps" % (len(pre), len(first_writes)), cm.file + ":%d" % cm.line)
    for e in pre:
        oks, errs = cm.result_edges(e)
        bad = [t for t in errs if cm.reachable_from([t], avoid=[d.block for d in ds]) & set(cm.return_blocks())]
        rep.ob("R17.3", "%s|pre-write-error-exit-keeps-shells" % nx.N + "::tx::Transaction::commit" if False else "anda_cognitive_nexus::tx::Transaction::commit|pre-write-error-exit-keeps-shells"
               if e.name.endswith(("check_before_write", "propagate_governance", "check_reference_closure", "check_concept_key_identity")) else "commit-pre-write|%s" % nx.short(e.name),
               bool(errs) and not bad,
               "a refusal found by %s (before anything was written) returns without removing the statement's pending shells; a state-constrained query observes them" % nx.short(e.name), e.where())
    cbw = [f for f in prog.fns.values() if f.path == TX + "::check_before_write"]
    if cbw:
        b = prog.async_body(cbw[0]) or cbw[0]
        names = {e.name.rsplit("::", 1)[1] for e in b.calls()}
        rep.ob("R17.3", "checks-grouped|check_before_write", {"propagate_governance", "check_reference_closure", "check_concept_key_identity"} <= names,
               "the pre-write checks (governance propagation, reference closure, key identity) all run inside the guarded helper", b.file + ":%d" % b.line)

    # the row store refuses *content* on write (anda_db Collection::add_from / update: schema validation, the complexity budget
    # - array length, node count - and the object size limit).  A row write is therefore a refusal source in the middle of the
    # write loop unless every staged row was put through the same validation before the first write, or a failed row write is
    # compensated.  (There is no log to unwind: rows written before the refusal stay, with no journal entry.)
    wr = [e for e in cm.calls_named(r"Transaction::write$")]
    content_refusing = [n for e in wr for n in (prog.reach_set(list(prog.callee_nodes(e))) | set(prog.callee_nodes(e)))
                        if re.search(r"^ext:anda_db::collection::Collection::(add_from|add|update|upsert)$", prog.node_name(n) or "")]
    if not wr or not content_refusing:
        raise CheckerFault("anchor missing: Transaction::write reaching Collection::add_from / update")
    prevalid = False
    if cbw:
        for n in prog.reach_set([cbw[0].id]):
            # (Document::try_from alone is not enough: the typed conversion applies no complexity budget - that is how the defect got through)
            if re.search(r"^ext:anda_db_schema::(schema::Schema::validate|field::FieldValue::validate_complexity(_with)?)$",
                         prog.node_name(n) or ""):
                prevalid = True
            # the row store's own dry run of the write (same field validation, complexity budget and size limit, nothing written)
            if re.search(r"^ext:anda_db::collection::Collection::check_(update|add_from)$", prog.node_name(n) or ""):
                prevalid = True
    # ... and per kind of object written: the element row goes through Collection::update, the version-log entry appended with it
    # through Collection::add_from, and the log entry carries the whole row as one field (the per-field budget applies to the whole
    # element there) - the dry run of one does not stand for the other
    DRY = {"add_from": "check_add_from", "add": "check_add_from", "update": "check_update", "upsert": "check_update"}
    kinds = {(prog.node_name(n) or "").rsplit("::", 1)[1] for n in content_refusing}
    dry, generic = set(), False
    if cbw:
        for n in prog.reach_set([cbw[0].id]):
            nm = prog.node_name(n) or ""
            m_ = re.search(r"^ext:anda_db::collection::Collection::(check_update|check_add_from)$", nm)
            if m_:
                dry.add(m_.group(1))
            if re.search(r"^ext:anda_db_schema::(schema::Schema::validate|field::FieldValue::validate_complexity(_with)?)$", nm):
                generic = True
    undried = sorted(k for k in kinds if DRY.get(k) not in dry)
    compensated = True
    for e in wr:
        oks, errs = cm.result_edges(e)
        for t in errs:
            after = cm.reachable_from([t])
            if not any(c.block in after and prog.event_in(c, writes) for c in cm.calls() if c not in wr):
                compensated = False
    rep.ob("R17.3", "content-refusals-before-first-write|Transaction::commit", prevalid or (bool(wr) and compensated),
           "a row write (Collection::add_from / update) refuses content - an array longer than 4096, more than 16384 nodes, an object over the size limit - "
           "in the middle of the write loop: check_before_write runs no schema / complexity / size validation over the staged rows, and the Err edge of "
           "Transaction::write returns without compensation, so the rows written before it stay (no journal entry) and the unwritten handles stay as pending shells",
           wr[0].where())
    rep.ob("R17.3", "every-written-object-dry-run|Transaction::commit", (not undried) or generic or (bool(wr) and compensated),
           "the write loop stores objects through Collection::%s but the pre-write checks reach no dry run of that kind of write (found: %s): the version-log "
           "entry carries the whole row as one field, so an element whose fields each fit the per-field budget but together exceed it passes the row's dry run "
           "and is refused at record_version in the middle of the loop - the rows written before it stay, the statement answers with an error" % (
               ", ".join(undried), ", ".join(sorted(dry)) or "none"), wr[0].where())

    # ------------------------------------------------------------------ R17.7 planning order
    rep.rule("R17.7", "planning order (clause order carries no semantics): every clause that creates the record behind a handle is planned in an earlier pass "
             "than every clause that can load and edit one; PLAN_PASSES covers every pass plan_pass hands out", floor=3)
    from .c16 import arm_regions
    MCL = "anda_kip::ast::MutationClause"
    pp = prog.fn(nx.N + "::kml::clauses::plan_pass")
    rep.saw(pp, len(pp.events))
    passes = {}

    def _ret_consts(bl):
        """constant values assigned to the return place in the blocks of one arm (constant arithmetic folded)"""
        def cint(o):
            k_ = (o.get("k") or {}) if isinstance(o, dict) else {}
            return int(k_["int"]) if k_.get("int") is not None else None
        folded = {}
        for b in bl:
            for st in pp.stmts(b):
                if st[0] == "A" and st[2]["k"] == "bin" and not st[1].get("p"):
                    a_, b_ = cint(st[2]["a"]), cint(st[2]["b"])
                    op = st[2]["op"].replace("WithOverflow", "").replace("Unchecked", "")
                    if a_ is not None and b_ is not None and op in ("Add", "Sub", "Mul"):
                        folded[st[1]["l"]] = {"Add": a_ + b_, "Sub": a_ - b_, "Mul": a_ * b_}[op]
        out = set()
        for b in bl:
            for st in pp.stmts(b):
                if st[0] == "A" and st[1]["l"] == 0 and not st[1].get("p") and st[2]["k"] == "use":
                    c_ = cint(st[2]["o"])
                    if c_ is None:
                        pl = core.op_place(st[2]["o"])
                        if pl is not None and pl.l in folded:
                            c_ = folded[pl.l]
                    out.add(c_)
        return out
    for v, bl in arm_regions(pp, MCL).items():
        vals = _ret_consts(bl)
        if len(vals) == 1 and None not in vals:
            passes[v] = vals.pop()
    # a clause "creates" when its arm of clauses::apply reaches the staging of a new row or the late binding of a handle
    ap = prog.fn(nx.N + "::kml::clauses::apply")
    rep.saw(ap, len(ap.events))
    mk = {f.id for f in prog.fns.values() if f.path in (TX + "::stage_new", TX + "::bind_existing")}
    if len(mk) < 2:
        raise CheckerFault("anchor missing: Transaction::stage_new / bind_existing")
    creating = set()
    for v, bl in arm_regions(ap, MCL).items():
        for e in ap.events:
            if (e.block in bl or e.call_block in bl) and any(n in prog.fns and (prog.reach_set([n]) | {n}) & mk for n in prog.callee_nodes(e)):
                creating.add(v)
    if len(passes) < 12 or len(creating) < 6:
        raise CheckerFault("anchor missing: plan_pass constants per clause (%d) / handle-declaring clauses (%s)" % (len(passes), sorted(creating)))
    others = {v for v in passes if v not in creating}
    late = sorted(v for v in creating if v in passes and others and passes[v] >= min(passes[o] for o in others))
    rep.note("plan_passes", {v: passes[v] for v in sorted(passes)})
    rep.ob("R17.7", "creating-clauses-planned-first|plan_pass", not late and creating <= set(passes),
           "%s share a planning pass with (or come after) clauses that load and edit a handle's row: in `CORRECT EVIDENCE :old BY ?new  CREATE EVIDENCE ?new {..}` "
           "the edit is applied to the still-empty shell and overwritten by the creation - the statement commits with E-old.corrected_by set and "
           "E-new.corrects empty" % ", ".join(late), pp.file + ":%d" % pp.line)
    npass = [k.get("int") for pth, k in prog.consts.items() if pth == nx.N + "::kml::clauses::PLAN_PASSES"]
    rep.ob("R17.7", "pass-count-covers-every-pass|PLAN_PASSES", bool(npass) and npass[0] is not None and int(npass[0]) == max(passes.values()) + 1,
           "PLAN_PASSES = %s but plan_pass hands out passes up to %d: clauses of a pass beyond the count are never applied" % (npass, max(passes.values())), pp.file + ":%d" % pp.line)
    kp = prog.fn(nx.N + "::kml::plan")
    uses = [1 for b in kp.live_blocks() for st in kp.stmts(b) if st[0] == "A" for o in core._rvalue_operands(st[2]) if ((o.get("k") or {}).get("def") or "").endswith("::PLAN_PASSES")]
    uses += [1 for b in kp.live_blocks() if kp.term(b)["k"] == "call" for o in kp.term(b)["args"] if ((o.get("k") or {}).get("def") or "").endswith("::PLAN_PASSES")]
    rep.ob("R17.7", "plan-iterates-the-pass-count|kml::plan", bool(uses) and any(g_.calls_named(r"kml::clauses::plan_pass$") for g_ in [kp] + list(prog.closures_of(kp)))
           and any(g_.calls_named(r"kml::clauses::apply$") for g_ in [kp] + list(prog.closures_of(kp))),
           "kml::plan loops over 0..PLAN_PASSES and applies the clauses plan_pass assigns to each pass", kp.file + ":%d" % kp.line)

    # ------------------------------------------------------------------ R17.4
    rep.rule("R17.4", "element versions are assigned only by the transactional writer (value from commit: 1 or loaded+1) and by the stamping helpers of Store::insert/update", floor=7)
    writers = {}
    for f in prog.fns.values():
        if f.crate != nx.N:
            continue
        for b in f.live_blocks():
            for st in f.stmts(b):
                if st[0] == "A" and st[1].get("p"):
                    names = [x["n"] for x in st[1]["p"] if isinstance(x, dict) and "n" in x]
                    ty = f.locals[st[1]["l"]]
                    if names and names[-1] == "version" and ("store::rows::" in ty or "store::write::EnvelopeMut" in ty):
                        writers.setdefault(nx.outer_name(prog, f), []).append((f, b, st))
    allowed_w = {"tx::Transaction::write", "store::write::WriteContext::stamp_new", "store::write::WriteContext::stamp_update"}
    for w, sites in sorted(writers.items()):
        rep.saw(sites[0][0], len(sites))
        rep.ob("R17.4", "version-writer|%s" % w, w in allowed_w, "%s assigns an element row's version (allowed: %s)" % (w, sorted(allowed_w)), "%s:%d" % (sites[0][0].file, sites[0][2][3] if len(sites[0][2]) > 3 else 0))
    rep.ob("R17.4", "version-writers-present", "tx::Transaction::write" in writers and len(writers.get("tx::Transaction::write", [])) >= 5, "anchor: the transactional writer stamps the version in each of its element arms", TX)
    # in write: the assigned value is the `version` parameter
    wr = prog.fn(TX + "::write")
    okp = True
    for (f, b, st) in writers.get("tx::Transaction::write", []):
        src = set()
        for o in core._rvalue_operands(st[2]):
            for x in f.slice_back_op(o):
                src.add((x[0], x[1] if x[0] in ("upvar", "arg") else None))
        if not any(k == "upvar" and v == "version" for k, v in src) and not any(k == "arg" for k, v in src):
            okp = False
    rep.ob("R17.4", "version-from-commit|Transaction::write", okp, "the transactional writer stores the version it was handed by commit (no local arithmetic)", wr.file + ":%d" % wr.line)
    # in commit: the value handed to write is 1 or saturating_add(1) of the loaded version, computed once per staged entry
    wcall = cm.calls_named(r"Transaction::write$")
    okv = False
    for e in wcall:
        vop = e.args[3] if len(e.args) > 3 else None
        if vop is None:
            continue
        org = cm.slice_back_op(vop, through=lambda ev: False)
        consts = {(o[1].get("int")) for o in org if o[0] == "const"}
        calls = {o[1].name for o in org if o[0] == "call"}
        okv = "1" in consts and any(n.endswith("saturating_add") for n in calls)
    rep.ob("R17.4", "one-increment|Transaction::commit", okv, "the version handed to the writer is the constant 1 (new) or version().saturating_add(1) (existing)", (wcall[0].where() if wcall else cm.file))
    # staged is a map keyed by element id: one entry - one write - per element
    tadt = prog.adt(TX)
    sty = [fd["ty"] for fd in tadt["variants"][0]["fields"] if fd["name"] == "staged"]
    rep.ob("R17.4", "staged-keyed-by-element", bool(sty) and sty[0].startswith("alloc::collections::btree::map::BTreeMap<anda_cognitive_nexus::id::ElementId"),
           "Transaction.staged is a map keyed by ElementId (however many clauses touched an element it is written once): %s" % (sty[:1]), TX)
    su = nx.store_method(prog, "update")
    ucallers = {nx.outer_name(prog, f) for (f, e) in nx.callers_of(prog, {su.id})}
    reach_kml = prog.reach_set([prog.fn(nx.N + "::kml::execute", body=False).id])
    rep.ob("R17.4", "non-transactional-update-outside-kml", su.id not in reach_kml, "the version-bumping Store::update is not reachable from kml::execute (callers: %s)" % sorted(ucallers), su.file + ":%d" % su.line)

    # ------------------------------------------------------------------ R17.5
    rep.rule("R17.5", "commit order: pre-write checks -> element writes -> journal -> governance audit -> approval spend -> flush; one sequence allocation site", floor=5)
    seq = [("checks", pre), ("writes", cm.calls_named(r"Transaction::write$")), ("journal", cm.calls_named(r"Store>?::journal$")),
           ("audit", cm.calls_named(r"GovernanceStore::record_mutation$")), ("spend", cm.calls_named(r"Approved::spend$")), ("flush", cm.calls_named(r"store::Store::flush$"))]
    for i, (na, a) in enumerate(seq):
        for (nb, b) in seq[i + 1:i + 2]:
            ok = bool(a) and bool(b) and not cm.can_reach([x.block for x in b], [x.block for x in a])
            rep.ob("R17.5", "order|%s<%s" % (na, nb), ok, "%s must never run after %s in commit" % (na, nb), (b[0].where() if b else cm.file))
    jr = seq[2][1]
    okj = bool(jr) and bool(seq[5][1]) and cm.must_pass([j.block for j in jr], [f.block for f in seq[5][1]])
    rep.ob("R17.5", "journal-before-flush", okj, "the journal entry is written on every path that reaches the final flush", (jr[0].where() if jr else cm.file))
    bt = nx.store_method(prog, "begin_transaction")
    bcallers = {nx.outer_name(prog, f) for (f, e) in nx.callers_of(prog, {bt.id})}
    rep.ob("R17.5", "single-sequence-allocator", bcallers <= {"tx::Transaction::begin", "governance::element::commit", "store::schema::<impl store::Store>::activate_schema"} and "tx::Transaction::begin" in bcallers,
           "Store::begin_transaction (the sequence allocator) is called from %s" % sorted(bcallers), bt.file + ":%d" % bt.line)
    # ------------------------------------------------------------------ R17.6 identity conflicts are looked for before the first write
    rep.rule("R17.6", "every uniqueness constraint the element collections enforce on write (#[unique] columns of the Element row types) is looked for by a "
                      "pre-write check over the staged rows: otherwise the index refuses the row in the middle of the write loop, after earlier rows are durable; "
                      "each pre-write check visits every staged row", floor=4)
    el = prog.adts.get(nx.N + "::store::Element")
    if el is None:
        raise CheckerFault("anchor missing: store::Element")
    row_types = []
    for v in el["variants"]:
        for fld in v["fields"]:
            m_ = re.search(r"(anda_cognitive_nexus::store::rows::\w+Row)", fld["ty"])
            if m_:
                row_types.append(m_.group(1))
    uniq = []
    for rt in row_types:
        sch = [f for f in prog.fns.values() if f.path == rt + "::schema"]
        if not sch:
            raise CheckerFault("anchor missing: %s::schema (derived)" % rt)
        fields = {x["name"] for v in prog.adts[rt]["variants"] for x in v["fields"]}
        for u in sch[0].calls_named(r"FieldEntry::with_unique$"):
            names = {o[1].get("str") for o in sch[0].slice_back_op(u.args[0], through=lambda ev: True) if o[0] == "const" and o[1].get("str")}
            for n_ in sorted(names & fields):
                uniq.append((rt, n_))
    cbw = prog.fn(TX + "::check_before_write")
    reach = prog.reach_set([cbw.id])
    checkers = [f for f in prog.fns.values() if f.id in reach and f.file.endswith("/tx.rs")]

    def reads_field(f, rt, fname):
        short = rt.rsplit("::", 1)[1]

        def scan(o):
            if isinstance(o, dict):
                if "l" in o and isinstance(o.get("p"), list) and any(isinstance(e, dict) and e.get("n") == fname for e in o["p"]):
                    if short in f.locals[o["l"]]:
                        return True
                return any(scan(v) for v in o.values())
            if isinstance(o, list):
                return any(scan(v) for v in o)
            return False
        return scan(f.d["blocks"])
    if not uniq:
        rep.fault("R17.6: no #[unique] column found on any Element row type (PropositionRow.tuple_key expected)")
    for (rt, fname) in uniq:
        hits = [f for f in checkers if "staged" in _all_fields(f) and reads_field(f, rt, fname)]
        rep.ob("R17.6", "pre-write-identity-check|%s.%s" % (rt.rsplit("::", 1)[1], fname), bool(hits),
               "no function reachable from Transaction::check_before_write reads %s.%s of the staged rows: two staged rows with the same value (or one equal to a "
               "committed row) are refused by the unique index only in the middle of the write loop, leaving the rows written before them" % (rt.rsplit("::", 1)[1], fname),
               cbw.file + ":%d" % cbw.line)
    # the pre-write checks look at *every* staged row: their loop over self.staged is left only when it is exhausted or through an
    # error return (a `break` on the first row of another kind skips every row after it - the staged map is ordered by kind tag)
    nloops = 0
    for f in checkers:
        if "staged" not in _all_fields(f) or f.kind == "Closure" and not f.coroutine:
            continue
        okret = {b for b in f.live_blocks() for st in f.stmts(b) if st[0] == "A" and st[1]["l"] == 0 and not st[1].get("p")
                 and st[2]["k"] == "agg" and st[2]["a"].get("def") == "core::result::Result" and st[2]["a"].get("v") == "Ok"}
        for nx_ in f.calls_named(r"Iterator>?::next$"):
            if "staged" not in f.slice_fields(nx_.args[0], through=lambda ev: True):
                continue
            some_t = [m["Some"] for (sb, adt, m) in f.outcome_edges(nx_.dest.l) if adt == "core::option::Option" and "Some" in m]
            if not some_t:
                continue
            nloops += 1
            h = nx_.block
            body = {b for b in f.reachable_from(some_t, avoid={h}) if b != h and f.can_reach([b], [h])}
            early = sorted(b for b in body if f.reachable_from([b], avoid={h}) & okret)
            rep.ob("R17.6", "visits-every-staged-row|%s" % prog.outer_fn(f).path.rsplit("::", 1)[1], not early,
                   "a pre-write check leaves its loop over the staged rows early and still answers Ok: the rows after that point are never checked",
                   "%s:%s" % (f.file, f.term(early[0]).get("ln", f.line)) if early else f.file + ":%d" % f.line)
    if nloops < 3:
        rep.fault("R17.6: only %d loops over the staged rows found in the pre-write checks" % nloops)
    return rep.finish(EXPLAIN)


def _all_fields(f):
    out = set()

    def scan(o):
        if isinstance(o, dict):
            if "n" in o and "f" in o:
                out.add(o["n"])
            for v in o.values():
                scan(v)
        elif isinstance(o, list):
            for v in o:
                scan(v)
    scan(f.d["blocks"])
    return out
