"""C04 — unique constraints always hold; a rejected write leaves no trace.  (DESIGN §4 C04)"""
import re

from lib import core, valueflow
from lib.report import CheckerFault
from . import anda
from .c06_db import _bool_switch

EXPLAIN = (
    "Static analysis over rustc MIR of anda_db_btree, anda_db::index::btree and anda_db::collection: R04.1 the uniqueness test of the B-tree index is "
    "re-evaluated under the posting's entry lock and its failing edge cannot reach the append; R04.2 an index update inserts the new value before it removes the old "
    "(a uniqueness rejection leaves the old posting in place); R04.3 validation precedes id allocation, every index mutation and every storage write in add, and "
    "set_field/validate precede the write-ahead intent in update; R04.4 unique indexes are evaluated first (registered at the front); R04.5 intent replay removes both "
    "recorded images and the current one before re-inserting. Rollback completeness is R02.2/R02.3 (C02). Not decided: absence of duplicates under real interleavings, value-level 'no trace'.")

BI = "anda_db_btree::btree::BTreeIndex::<PK, FV>"


def field_read_blocks(f, field):
    out = set()
    for b in f.live_blocks():
        for st in f.stmts(b):
            if st[0] != "A":
                continue
            rv = st[2]
            places = [o.get("c") or o.get("m") for o in core._rvalue_operands(rv)]
            if rv["k"] in ("ref", "cfd"):
                places.append(rv["p"])
            for pl in places:
                if pl and any(isinstance(e, dict) and e.get("n") == field for e in (pl.get("p") or [])):
                    out.add(b)
    return out


def update_order_rules(rep, rule, prog):
    """An index update inserts the new value before it removes the old one (shared by C04 R04.2 and C02 R02.8): a refused insert
    then leaves the old posting in place - update_impl rolls back only the indexes whose update succeeded."""
    f = prog.fn("anda_db::index::btree::BTree::update")
    rep.saw(f, len(f.events))
    ins = [e for e in f.calls_named(r"^anda_db::index::btree::BTree::insert$")]
    rem = [e for e in f.calls_named(r"^anda_db::index::btree::BTree::remove$")]
    # the scalar path: the pair that is executed together (insert whose Ok edge reaches a remove)
    pair_ok = False
    for i in ins:
        oks, errs = f.result_edges(i)
        for r in rem:
            if oks and any(f.dominates(t, r.block) for t in oks) and not any(r.block in f.reachable_from([t]) for t in errs):
                pair_ok = True
    rep.ob(rule, "insert-before-remove|BTree::update", pair_ok and not any(f.can_reach([r.block], [i.block]) for r in rem for i in ins),
           "the old value is removed only on the Ok edge of inserting the new value, never before it", f.file + ":%d" % f.line)
    g = prog.fn(BI + "::batch_update")
    rep.saw(g, len(g.events))
    ia = g.calls_named(r"BTreeIndex::<PK, FV>::insert_array$")
    ra = g.calls_named(r"BTreeIndex::<PK, FV>::remove_array$")
    ok = bool(ia) and bool(ra) and not g.can_reach([r.block for r in ra], [i.block for i in ia])
    for i in ia:
        oks, errs = g.result_edges(i)
        ok = ok and bool(errs) and not any(g.reachable_from([t]) & {r.block for r in ra} for t in errs)
    rep.ob(rule, "insert-before-remove|BTreeIndex::batch_update", ok, "remove_array runs after insert_array and never on its Err edge", g.file + ":%d" % g.line)



def run(rep, tier):
    prog = anda.load()
    C = anda.Coll(prog)
    rep.not_decided = "absence of duplicates under actual interleavings; value-level 'no trace' of a rejected write"
    rep.assumptions = ["rustc MIR and callee resolution", "DashMap::entry holds the shard lock for the lifetime of the Entry"]

    # ------------------------------------------------------------------ R04.1
    rep.rule("R04.1", "B-tree unique check is re-evaluated under the posting entry lock; its failing edge cannot reach the append", floor=4)
    for name in ("insert", "insert_array"):
        f = prog.fn(BI + "::" + name)
        rep.saw(f, len(f.events))
        entries = [e for e in f.calls_named(r"dashmap::DashMap::<K, V, S>::entry$|dashmap::.*::entry$") if "postings" in anda.recv_fields(f, e)]
        through = lambda ev: ev.callee in core.TRANSPARENT or "OccupiedEntry" in (ev.callee or "")
        pushes = []
        for e in f.calls_named(r"UniqueVec::<T>::push$"):
            origins = f.slice_back_op(e.args[0], through=lambda ev: ev.callee in core.TRANSPARENT)
            via_entry = any(o[0] == "call" and "OccupiedEntry" in (o[1].callee or "") for o in origins)
            fields = f.slice_fields(e.args[0], through=lambda ev: ev.callee in core.TRANSPARENT or "OccupiedEntry" in (ev.callee or "")
                                    or (ev.callee or "").endswith("::entry"))
            if via_entry and "postings" in fields:
                pushes.append(e)
        reads = field_read_blocks(f, "allow_duplicates")
        if not entries or not pushes:
            rep.ob("R04.1", "in-lock-recheck|%s" % name, False, "anchor sites missing (entry calls %d, posting appends %d)" % (len(entries), len(pushes)), f.file + ":%d" % f.line)
            continue
        for p in pushes:
            inlock = [r for r in reads if any(f.dominates(en.block, r) for en in entries) and f.dominates(r, p.block)]
            rep.ob("R04.1", "in-lock-recheck|%s" % name, bool(inlock),
                   "the append of a doc id to an existing posting must be dominated by a read of config.allow_duplicates taken after DashMap::entry (not only a pre-check)", p.where())
            # failing edge: (!allow_duplicates && !contains) must not reach the append
            conts = [c for c in f.calls_named(r"UniqueVec::<T>::contains$") if any(f.dominates(r, c.block) for r in inlock) and f.can_reach([c.block], [p.block])]
            ok = False
            for c in conts:
                ft, tt = _bool_switch(f, c)
                if ft is not None and p.block not in f.reachable_from([ft], avoid=[en.block for en in entries]):
                    ok = True
                elif p.block not in valueflow.reachable_if_result(f, c, 0, avoid=[en.block for en in entries]):
                    ok = True       # the test is kept in a named flag (`let owned_by_other = !dup && !contains; if owned_by_other`): decided path-sensitively
            rep.ob("R04.1", "reject-edge|%s" % name, ok,
                   "the edge `unique && posting does not contain this doc id` must not reach the append", p.where())

    # ------------------------------------------------------------------ R04.2 insert-new before remove-old
    rep.rule("R04.2", "index update inserts the new value before removing the old one (wrapper update and BTreeIndex::batch_update)", floor=2)
    update_order_rules(rep, "R04.2", prog)

    # ------------------------------------------------------------------ R04.3 validate before mutate
    rep.rule("R04.3", "validation precedes allocation, index mutation and storage writes (add); set_field and validate precede the intent (update)", floor=4)
    eff = prog.reaching(anda.is_effect)
    f = prog.fn(anda.COLL + "::add_impl")
    rep.saw(f, len(f.events))
    val = f.calls_named(r"anda_db_schema::schema::Schema::validate$")
    okv = set()
    for v in val:
        okv |= set(f.result_edges(v)[0])
    from .c01 import effect_sites
    sites = effect_sites(prog, f, eff)
    alloc = [e for e in f.calls_named(r"Atomic::<u64>::fetch_add$") if "max_document_id" in anda.recv_fields(f, e)]
    rep.ob("R04.3", "validate-first|add_impl", bool(okv) and bool(sites) and bool(alloc) and f.must_pass(okv, [e.block for e in sites + alloc]),
           "Schema::validate (Ok edge) must dominate the id allocation and every index/storage effect in add_impl", f.file + ":%d" % f.line)
    f = prog.fn(anda.COLL + "::update_impl")
    rep.saw(f, len(f.events))
    val = f.calls_named(r"anda_db_schema::schema::Schema::validate$")
    setf = f.calls_named(r"anda_db_schema::document::Document::set_field$")
    intent = f.calls_named(r"Collection::record_mutation_intent$")
    okv = set()
    for v in val:
        okv |= set(f.result_edges(v)[0])
    rep.ob("R04.3", "validate-before-intent|update_impl", bool(okv) and bool(intent) and f.must_pass(okv, [e.block for e in intent]),
           "the updated document is validated before the write-ahead intent is recorded", f.file + ":%d" % f.line)
    rep.ob("R04.3", "set_field-before-validate|update_impl", bool(setf) and bool(val) and not f.can_reach([v.block for v in val], [s.block for s in setf]),
           "every set_field precedes validation (no field is applied after the document was validated)", f.file + ":%d" % f.line)
    sites = effect_sites(prog, f, eff)
    oki = set()
    for i in intent:
        oki |= set(f.result_edges(i)[0])
    rest = [e for e in sites if e not in intent]
    rep.ob("R04.3", "errors-before-effects|update_impl", bool(okv) and bool(rest) and f.must_pass(okv, [e.block for e in rest]),
           "NotFound / unknown field / schema rejection return before any index or storage effect", f.file + ":%d" % f.line)

    # the primary key is a unique field like any other (`_id`, declared unique by every schema) and it is the document's identity:
    # an update that applies caller-supplied fields must either compare the field name with the key (and refuse / skip it) or
    # re-stamp the id after applying them, before the document is written
    docw = [e for e in f.calls_named(r"^anda_db::storage::Storage::(put|put_bytes)$")]
    cmp_key = []
    for e in f.calls_named(r"PartialEq.*::(eq|ne)$"):
        for a in e.args:
            k_ = (a.get("k") or {}) if isinstance(a, dict) else {}
            if (k_.get("def") or "").endswith("Schema::ID_KEY") or k_.get("str") == "_id" or (k_.get("tyconst") or "").strip('"') == "_id":
                cmp_key.append(e)
        if any(o[0] == "const" and isinstance(o[1], dict) and ((o[1].get("def") or "").endswith("Schema::ID_KEY") or o[1].get("str") == "_id")
               for a in e.args for o in f.slice_back_op(a)):
            cmp_key.append(e)
    stamp = [e for e in f.calls_named(r"anda_db_schema::document::Document::set_id$")
             if setf and all(not f.can_reach([e.block], [s_.block]) for s_ in setf) and docw and all(f.dominates(e.block, w.block) for w in docw)]
    rep.ob("R04.3", "primary-key-not-movable|update_impl", bool(setf) and (bool(cmp_key) or bool(stamp)),
           "update_impl applies every caller-supplied field with set_field, `_id` included, and neither compares a field name with Schema::ID_KEY nor "
           "re-stamps the id before the PUT: update(1, {_id: 2}) is accepted and data/1.cbor then carries _id = 2 - two live documents share the unique primary key",
           (setf[0].where() if setf else f.file))

    # ------------------------------------------------------------------ R04.7 a value is released only once giving it up is durable
    rep.rule("R04.7", "a unique value is released in the index only after the write that gives it up (the document PUT of an update, the DELETE of a "
             "remove) was acknowledged: until then another writer must not be able to become its owner", floor=2)
    from . import c02 as _c02
    fams_ = _c02.families(prog)
    for name, wrx in (("update_impl", r"^anda_db::storage::Storage::(put|put_bytes)$"), ("remove_impl", r"^anda_db::storage::Storage::delete$")):
        g = prog.fn(anda.COLL + "::" + name)
        from .c01 import path_class as _pc
        wr = [e for e in g.calls_named(wrx) if "fn:doc_path" in _pc(prog, g, e)]
        okw = set()
        for w in wr:
            okw |= set(g.result_edges(w)[0])
        # forward releases: B-tree update (removes the old value) / remove, in the function body or a closure invoked from a
        # block that is not behind the write's Ok edge
        early = []
        bodies = [g] + [prog.fns[e.cid] for e in g.creates() if e.cid in prog.fns]
        err_t = set()
        for (sb, place, adt, m, els) in g.variant_edges():
            if adt in ("core::result::Result", "core::ops::control_flow::ControlFlow"):
                t = m.get("Err", m.get("Break"))
                if t is not None:
                    err_t.add(t)
        for b_ in bodies:
            ops = _c02.fam_ops(prog, [b_] + prog.closures_of(b_), fams_).get("btree_indexes", ())
            rel = [(op, e) for (op, e) in ops if op in ("update", "remove", "batch_update") and e.kind == "call"]
            if not rel:
                continue
            if b_ is g:
                sites = [e.block for (_, e) in rel if e.fn is g]      # (the closures are judged at their invocation sites below)
            else:
                sites = [e.block for e in g.calls() if b_.id in prog.callee_nodes(e)]
                # the rollback closure (invoked only on error edges) restores, it does not release
                if sites and all(any(g.dominates(t, sb_) for t in err_t) for sb_ in sites):
                    continue
            for sb_ in sites:
                # behind the write's Ok edge: by dominance, or path-sensitively (remove_impl skips the DELETE only when there is no
                # document, and then releases nothing)
                if not (okw and (any(g.dominates(t, sb_) for t in okw) or valueflow.must_pass_ps(g, okw, [sb_]))):
                    early.append(sb_)
        rep.ob("R04.7", "released-after-durable|%s" % name, bool(wr) and not early,
               "%s takes the document's old values out of the B-tree indexes before its storage write is acknowledged: while that write is in flight another "
               "writer is acknowledged as the owner of a unique value, and when the write then fails, is cancelled or the process dies, the stored document "
               "still carries it (the rollback cannot reclaim it; recovery registers both documents)" % name,
               g.file + ":%d" % (g.term(early[0]).get("ln", g.line) if early else g.line))

    # ------------------------------------------------------------------ R04.8 a value is claimed before the write that needs it
    rep.rule("R04.8", "the document write of an add / update (create / PUT of the document object) runs only behind the forward index pass that claims "
             "its unique values, and not on the paths where that pass was refused: a write ahead of the claim makes a duplicate durable before the "
             "index had its say", floor=2)
    for name, wrx in (("add_impl", r"^anda_db::storage::Storage::(create|put|put_bytes)$"), ("update_impl", r"^anda_db::storage::Storage::(put|put_bytes)$")):
        g = prog.fn(anda.COLL + "::" + name)
        from .c01 import path_class as _pc8
        wr = [e for e in g.calls_named(wrx) if "fn:doc_path" in _pc8(prog, g, e)]
        err_t = set()
        for (sb, place, adt, m, els) in g.variant_edges():
            if adt in ("core::result::Result", "core::ops::control_flow::ControlFlow"):
                t = m.get("Err", m.get("Break"))
                if t is not None:
                    err_t.add(t)
        fwd_sites, rb_sites = [], []
        for ce in g.creates():
            c = prog.fns.get(ce.cid)
            if c is None:
                continue
            ops = _c02.fam_ops(prog, [c] + prog.closures_of(c), fams_).get("btree_indexes", ())
            if not any(op in ("insert", "update", "batch_update") for (op, _) in ops):
                continue
            sites = [e for e in g.calls() if c.id in prog.callee_nodes(e)]
            if sites and all(any(g.dominates(t, e.block) for t in err_t) for e in sites):
                rb_sites += sites
            else:
                fwd_sites += sites
        if not fwd_sites:     # the forward pass is written inline
            own = _c02.fam_ops(prog, [g], fams_).get("btree_indexes", ())
            fwd_sites = [e for (op, e) in own if op in ("insert", "update", "batch_update") and e.kind == "call" and e.fn is g
                         and not any(g.dominates(t, e.block) for t in err_t)]
        if not wr or not fwd_sites:
            raise CheckerFault("anchor missing: document write / forward index pass of %s" % name)
        claims_first = all(any(g.dominates(fs.block, w.block) and fs.block != w.block for fs in fwd_sites) for w in wr)
        refused_writes = [w for w in wr for r_ in rb_sites if g.dominates(r_.block, w.block)]
        rep.ob("R04.8", "claimed-before-write|%s" % name, claims_first and not refused_writes,
               "%s reaches its document write without having run the forward index pass (or behind the rollback of a refused pass): the unique values of the "
               "new content are not claimed when the object becomes durable - a concurrent or later writer of the same value is accepted too, and after a "
               "crash both documents are live" % name, wr[0].where())

    # ------------------------------------------------------------------ R04.4 unique first
    rep.rule("R04.4", "unique B-tree indexes are placed at the front of the family (evaluated first): push only on the not-unique edge", floor=2)
    for fname in ("load_indexes", "create_btree_index"):
        f0 = prog.fn(anda.COLL + "::" + fname)
        bodies = [f0] + prog.closures_of(f0)
        found = 0
        for f in bodies:
            uq = f.calls_named(r"anda_db_schema::field::FieldEntry::unique$")
            pushes = [e for e in f.calls_named(r"Vec::<T, A>::push$") if _is_btree_vec(f, e)]
            inserts0 = [e for e in f.calls_named(r"Vec::<T, A>::insert$") if _is_btree_vec(f, e)]
            if not pushes and not inserts0:
                continue
            rep.saw(f, len(f.events))
            for p in pushes:
                found += 1
                ok = False
                for u in uq:
                    ft, tt = _bool_switch(f, u)
                    if ft is not None and f.dominates(ft, p.block) and p.block not in f.reachable_from([tt], avoid=[u.block]):
                        ok = True
                rep.ob("R04.4", "push-only-non-unique|%s" % fname, ok, "Vec::push of a B-tree index must lie on the not-unique edge of FieldEntry::unique()", p.where())
            for i in inserts0:
                k = i.args[1].get("k") if len(i.args) > 1 else None
                rep.ob("R04.4", "front-insert|%s" % fname, k is not None and k.get("int") == "0", "front registration must insert at position 0", i.where())
        if not found:
            rep.ob("R04.4", "push-only-non-unique|%s" % fname, False, "anchor: no Vec::push of a B-tree index found", f0.file + ":%d" % f0.line)

    # ------------------------------------------------------------------ R04.5 replay removes images before re-insert
    rep.rule("R04.5", "reconcile_mutation_intents: both recorded images and the current document are removed from the indexes before the re-insert; replay precedes the repair scan in open", floor=3)
    f = prog.fn(anda.COLL + "::reconcile_mutation_intents")
    rep.saw(f, len(f.events))
    rm = f.calls_named(r"Collection::remove_document_from_indexes$")
    ins = f.calls_named(r"Collection::insert_document_into_indexes$")
    rep.ob("R04.5", "remove-before-insert|reconcile_mutation_intents", len(rm) >= 2 and bool(ins) and all(f.must_pass([r.block for r in rm], [i.block]) for i in ins)
           and any(f.dominates(r.block, i.block) for r in rm for i in ins),
           "a remove_document_from_indexes must dominate insert_document_into_indexes (found %d removes)" % len(rm), f.file + ":%d" % f.line)
    # the image loop precedes the re-index loop
    early = [r for r in rm if not any(f.dominates(r.block, i.block) for i in ins)]
    rep.ob("R04.5", "images-first|reconcile_mutation_intents", bool(early) and not f.can_reach([i.block for i in ins], [r.block for r in early]),
           "recorded pre/post images are removed in a pass that completes before any re-insert", f.file + ":%d" % f.line)
    # a rejected add / update leaves no index entry behind: forward/rollback pairing and rollback-or-poison on every error exit
    # (the same obligations as C02 R02.2 / R02.3, claimed here for the "rejected write leaves no trace" clause)
    rep.rule("R04.6", "rejected writes leave no index trace: the rollback closure undoes every forward index operation and every error exit after the first "
                      "index mutation passes it (or poisons the handle)", floor=8)
    from . import c02
    fams = c02.families(prog)
    c02.rollback_rules(rep, prog, anda.Coll(prog), fams, "R04.6", "R04.6", names=("add_impl", "update_impl"))

    # recovery order (same fact as C01 R01.7, claimed here for the unique-index consequence): the intent replay retires the
    # postings of images that no longer exist *before* the repair scan re-indexes the documents written after the checkpoint;
    # the other order makes the scan hit AlreadyExists on a value that changed hands, and the new holder ends up unindexed.
    o = prog.fn(anda.COLL + "::open")
    rep.saw(o, len(o.events))
    rp = o.calls_named(r"Collection::replay_mutation_intents$")
    ar = o.calls_named(r"Collection::auto_repair_indexes$")
    ok = bool(rp) and bool(ar) and all(o.must_pass({e.block for e in rp}, [x.block]) for x in ar) \
        and not o.can_reach({x.block for x in ar}, {e.block for e in rp})
    rep.ob("R04.5", "replay-before-repair|open", ok, "replay_mutation_intents must precede auto_repair_indexes in Collection::open",
           (ar[0].where() if ar else o.file))
    return rep.finish(EXPLAIN)


def _is_btree_vec(f, e):
    t = f.locals[core.op_place(e.args[0]).l] if core.op_place(e.args[0]) is not None else ""
    return "alloc::vec::Vec<anda_db::index::btree::BTree>" in t
