"""C16 — no accepted KIP mutation can touch engine-owned or immutable state.  (DESIGN §4 C16)"""
import re

from lib import core, valueflow
from lib.report import CheckerFault
from .c15 import load, P

EXPLAIN = (
    "Type-directed static analysis over rustc MIR and the AST type definitions of anda_kip: R16.1 every field of every MutationClause payload (and every UpdateAction variant) whose type "
    "carries an assignment block, a facet assignment list, a facet unset or an unset name list is enumerated from the type definitions; for each one the tree validator's arm for that variant must "
    "read the field and pass the value to a closure that reaches is_protected_field - a new clause, field or action that the validator forgets is reported; R16.2 every payload with a "
    "where_clauses field is returned by clause_where, every WhereClause variant that carries a matcher/term/nested block is handled by validate_exact_patterns, and BELIEF selectors map to an error; "
    "R16.3 every producer of a command that leaves the crate passes the validator (text entries, and the pre-parsed tree edge of Operation::parse before the clone), and validate_plan validates "
    "every clause and checks handle uniqueness and resolution; R16.4 the update guard is reached from the Update arm, the immutable-payload tables and PROTECTED_FIELDS are referenced only "
    "by the guards, and the text-path combinators also apply the protected-field test; R16.5 ASSERT expands to exactly EnsureProposition + CreateAssertion (+ SupersedeAssertion) and refuses a "
    "missing `by` or `mode`. Not decided: spelling/case/quoting variants at value level, nested path semantics.")

AST = "anda_kip::ast"
KML = P + "::kml"
MC = AST + "::MutationClause"


def classify(ty, name):
    out = set()
    if "alloc::vec::Vec<(alloc::string::String, anda_kip::ast::MutationValue)>" in ty:
        out.add("assignments")
    if "anda_kip::ast::FacetAssignment" in ty:
        out.add("facet-assignments")
    if "anda_kip::ast::FacetUnset" in ty:
        out.add("facet-unset")
    if re.search(r"alloc::vec::Vec<alloc::string::String>", ty) and name.lower().startswith("unset"):
        out.add("unset-names")
    return out


def field_read_dests(f, blocks, field):
    """(dest local, line) of statements in `blocks` that read a place projecting `field` (struct field or tuple-variant payload)."""
    out = []
    for b in blocks:
        for st in f.stmts(b):
            if st[0] != "A":
                continue
            places = [o.get("c") or o.get("m") for o in core._rvalue_operands(st[2])]
            if st[2]["k"] in ("ref", "cfd", "discr"):
                places.append(st[2]["p"])
            for pl in places:
                if pl and any(isinstance(e, dict) and e.get("n") == field for e in (pl.get("p") or [])):
                    out.append((st[1]["l"], st[3] if len(st) > 3 else 0))
    return out


def variant_payload_reads(f, blocks, variant):
    """dest locals of statements reading the payload `(x as Variant).0` in `blocks`."""
    out = []
    for b in blocks:
        for st in f.stmts(b):
            if st[0] != "A":
                continue
            places = [o.get("c") or o.get("m") for o in core._rvalue_operands(st[2])]
            if st[2]["k"] in ("ref", "cfd"):
                places.append(st[2]["p"])
            for pl in places:
                if pl and any(isinstance(e, dict) and e.get("d") == variant for e in (pl.get("p") or [])):
                    out.append((st[1]["l"], st[3] if len(st) > 3 else 0))
    return out


def arm_regions(f, adt_path, within=None):
    """{variant: set(blocks)}: blocks reachable from the variant's edge target without re-entering the
    match head or another variant's (unshared) edge target.  Handles or-patterns (several variants
    binding and then sharing one arm body) and matches inside loops."""
    out = {}
    for (sb, place, adt, m, els) in f.variant_edges():
        if adt != adt_path or (within is not None and sb not in within):
            continue
        for v, tb in m.items():
            others = {t for v2, t in m.items() if t != tb}
            r = f.reachable_from([tb], avoid={sb} | others)
            out.setdefault(v, set()).update(r)
    return out


def run(rep, tier):
    prog = load()
    rep.not_decided = "spelling / case / quoting variants of field names at value level (the rule shows every name reaches the comparison, not that the comparison is the right one); nested path semantics"
    rep.assumptions = ["rustc MIR", "type definitions as seen by rustc (serde derives build exactly these shapes)", "is_protected_field is the protected-field test"]
    vc = prog.fn(KML + "::validate_clause")
    rep.saw(vc, len(vc.events))
    ipf = {f.id for f in prog.fns.values() if f.path == P + "::common::is_protected_field"}
    if not ipf:
        raise CheckerFault("anchor missing: is_protected_field")
    checkers = set()
    for k in prog.closures_of(vc):
        if k.parent == vc.id and prog.reach_set([k.id]) & ipf:
            checkers.add(k.id)
    # the checks may also be ordinary functions (or, once a new helper was inlined, direct calls of the protected-field test):
    # anything validate_clause can reach that reaches is_protected_field
    for fid in prog.reach_set([vc.id]):
        g_ = prog.fns.get(fid)
        if g_ is not None and fid != vc.id and (fid in ipf or prog.reach_set([fid]) & ipf):
            checkers.add(fid)
    if len(checkers) < 2:
        raise CheckerFault("anchor missing: protected-field check closures in validate_clause (found %d)" % len(checkers))
    rep.note("check_closures", sorted(prog.fns[c].path.rsplit("::", 1)[1] for c in checkers))
    create_of = {e.cid: e for e in vc.creates()}

    def passes_to_checker(blocks, dests):
        """some call in `blocks` receives a value derived from `dests` and is (or is handed) a check closure"""
        if not dests:
            return False
        der = vc.derived_locals([d for d, _ in dests])
        for e in vc.calls():
            if e.block not in blocks:
                continue
            argl = [core.op_place(a).l for a in e.args if core.op_place(a) is not None]
            if not any(l in der for l in argl):
                continue
            nodes = set(prog.callee_nodes(e))
            if nodes & checkers:
                return True
            for a in e.args:
                k_ = a.get("k") if isinstance(a, dict) else None
                if k_ and "fn" in k_ and (k_["fn"].get("rid") in checkers or k_["fn"].get("id") in checkers):
                    return True         # `opt.map_or(Ok(()), check_fn)`: the check is handed over as a fn item
                for o in vc.slice_back_op(a):
                    if o[0] == "create" and o[1].cid in checkers:
                        return True
        return False

    # arms of validate_clause
    arms = arm_regions(vc, MC)
    region = lambda blocks: set(blocks)

    rep.rule("R16.1", "validator completeness (type-directed): every assignment-bearing field / action of every mutation clause is read in its arm and passed to the protected-field check", floor=17)
    mc = prog.adt(MC)
    nob = 0
    for var in mc["variants"]:
        V = var["name"]
        if not var["fields"]:
            continue
        payload = [a for a in var["fields"][0]["adts"] if a.startswith(AST + "::")]
        if not payload:
            continue
        padt = prog.adts.get(payload[0])
        if padt is None or padt["kind"] != "Struct":
            continue
        for fd in padt["variants"][0]["fields"]:
            cls = classify(fd["ty"], fd["name"])
            if cls:
                nob += 1
                R = region(arms.get(V, ()))
                dests = field_read_dests(vc, R, fd["name"])
                ok = bool(arms.get(V)) and passes_to_checker(R, dests)
                rep.ob("R16.1", "checked|%s.%s" % (V, fd["name"]), ok,
                       "%s.%s (%s) is not passed to the protected-field check by the tree validator: a pre-parsed tree could assign engine-owned state through it" % (V, fd["name"], "/".join(sorted(cls))),
                       vc.file + ":%d" % vc.line)
            if "anda_kip::ast::UpdateAction" in fd["ty"]:
                ua = prog.adt(AST + "::UpdateAction")
                R = region(arms.get(V, ()))
                ua_arms = arm_regions(vc, AST + "::UpdateAction", within=R)
                for uv in ua["variants"]:
                    if not uv["fields"]:
                        continue
                    cls = classify(uv["fields"][0]["ty"], uv["name"])
                    if not cls:
                        continue
                    nob += 1
                    R2 = set(ua_arms.get(uv["name"], ()))
                    dests = variant_payload_reads(vc, R2, uv["name"])
                    # bindings are introduced on the edge block itself
                    ok = bool(ua_arms.get(uv["name"])) and passes_to_checker(R2, dests)
                    rep.ob("R16.1", "checked|%s.actions.%s" % (V, uv["name"]), ok,
                           "UpdateAction::%s (%s) is not passed to the protected-field check in the %s arm" % (uv["name"], "/".join(sorted(cls)), V), vc.file + ":%d" % vc.line)
    rep.note("assignment_bearing_sites", nob)
    # the check closures really refuse: is_protected_field's true edge returns Err
    for cid in sorted(checkers):
        k = prog.fns[cid]
        calls = [e for e in k.calls() if e.cid in ipf]
        if not calls:
            continue        # check_facets delegates to check_assignments
        from .c06_db import _bool_switch
        ok = True
        for e in calls:
            ft, tt = _bool_switch(k, e)
            okret = [b for b in k.live_blocks() for st in k.stmts(b) if st[0] == "A" and st[1]["l"] == 0 and st[2]["k"] == "agg" and st[2]["a"].get("v") == "Ok"]
            ok = ok and tt is not None and not (k.reachable_from([tt], avoid=[e.block]) & set(okret))
        rep.ob("R16.1", "refuses|%s" % k.path.rsplit("::", 1)[1], ok, "the protected-field edge of the check closure cannot reach its Ok return", k.file + ":%d" % k.line)

    # ------------------------------------------------------------------ R16.2
    rep.rule("R16.2", "selection blocks: every payload with where_clauses is returned by clause_where; validate_exact_patterns handles every matcher-bearing WhereClause variant; BELIEF selectors refused", floor=12)
    cw = prog.fn(KML + "::clause_where")
    rep.saw(cw, len(cw.events))
    cw_arms = arm_regions(cw, MC)
    for var in mc["variants"]:
        if not var["fields"]:
            continue
        payload = [a for a in var["fields"][0]["adts"] if a.startswith(AST + "::")]
        padt = prog.adts.get(payload[0]) if payload else None
        if padt is None or padt["kind"] != "Struct":
            continue
        if any(fd["name"] == "where_clauses" for fd in padt["variants"][0]["fields"]):
            R = set(cw_arms.get(var["name"], ()))
            ok = bool(field_read_dests(cw, R, "where_clauses"))
            rep.ob("R16.2", "where-returned|%s" % var["name"], ok, "%s carries a WHERE block that clause_where does not return (its patterns would skip validation)" % var["name"], cw.file + ":%d" % cw.line)
    vw = vc.calls_named(r"kml::clause_where$")
    vp = vc.calls_named(r"kml::validate_exact_patterns$")
    okret = [b for b in vc.live_blocks() for st in vc.stmts(b) if st[0] == "A" and st[1]["l"] == 0 and st[2]["k"] == "agg" and st[2]["a"].get("v") == "Ok"]
    errv = set()
    for e in vp:
        errv |= set(vc.result_edges(e)[1])
    rep.ob("R16.2", "where-validated|validate_clause", bool(vw) and bool(vp) and vc.must_pass([w.block for w in vw], okret) and bool(errv) and not any(vc.reachable_from([t]) & set(okret) for t in errv),
           "validate_clause runs validate_exact_patterns over clause_where(clause) and obeys its error", vc.file + ":%d" % vc.line)
    ve = prog.fn(KML + "::validate_exact_patterns")
    rep.saw(ve, len(ve.events))
    wc = prog.adt(AST + "::WhereClause")
    ve_arms = arm_regions(ve, AST + "::WhereClause")
    loop_heads = {e.block for e in ve.calls_named(r"Iterator::next$")}
    for v in list(ve_arms):
        # the match sits in a `for` loop: cut the region at the loop head
        tb_blocks = ve_arms[v]
        ve_arms[v] = {b for b in tb_blocks if b not in loop_heads}
    wild = {}
    for (sb, place, adt, m, els) in ve.variant_edges():
        if adt == AST + "::WhereClause":
            for v, tb in m.items():
                wild.setdefault(tb, set()).add(v)
    for var in wc["variants"]:
        tys = " ".join(fd["ty"] for fd in var["fields"])
        carries = any(x in tys for x in ("anda_kip::ast::ObjectMatcher", "anda_kip::ast::Term", "anda_kip::ast::PropositionMatcher", "anda_kip::ast::WhereClause"))
        R = _cut_at_loop(ve, ve_arms.get(var["name"], set()), loop_heads)
        handled = any(e.block in R and re.search(r"kml::validate_\w+$", e.name) for e in ve.calls())
        # an arm shared with many other variants through the wildcard (`_ => {}`) edge handles nothing
        wildcard = any(var["name"] in vs and len(vs) > 4 for vs in wild.values())
        if var["name"] in ("Belief", "BeliefSlot"):
            refuses = any(b in R for b in ve.live_blocks() for st in ve.stmts(b) if st[0] == "A" and st[1]["l"] == 0 and st[2]["k"] == "agg" and st[2]["a"].get("v") == "Err")
            rep.ob("R16.2", "belief-refused|%s" % var["name"], refuses and not wildcard, "a %s selector must be refused (a projection is never a mutation/export target)" % var["name"], ve.file + ":%d" % ve.line)
        elif carries:
            rep.ob("R16.2", "pattern-handled|%s" % var["name"], handled and not wildcard, "WhereClause::%s carries a matcher/term/nested block that validate_exact_patterns does not descend into" % var["name"], ve.file + ":%d" % ve.line)

    # ------------------------------------------------------------------ R16.3
    rep.rule("R16.3", "producers pass the validator: Operation::parse validates a supplied tree before cloning it; validate_plan validates every clause, handle uniqueness and resolution", floor=5)
    opf = prog.fn("anda_kip::request::Operation::parse")
    rep.saw(opf, len(opf.events))
    val = opf.calls_named(r"parser::validate_command$")
    cl = [e for e in opf.calls_named(r"Clone>::clone$|Clone::clone$") if "ast::Command" in ((e.finfo or {}).get("self", "") + opf.locals[e.dest.l])]
    okv = set()
    for e in val:
        okv |= set(opf.result_edges(e)[0])
    rep.ob("R16.3", "tree-validated-before-use|Operation::parse", bool(val) and bool(cl) and bool(okv) and opf.must_pass(okv, [c.block for c in cl]),
           "a pre-parsed tree is cloned into the command only on the Ok edge of validate_command", (cl[0].where() if cl else opf.file))
    pk = opf.calls_named(r"parser::parse_kip$")
    okret = [b for b in opf.live_blocks() for st in opf.stmts(b) if st[0] == "A" and st[1]["l"] == 0 and st[2]["k"] == "agg" and st[2]["a"].get("v") == "Ok"]
    src = set()
    for e in pk:
        src |= set(opf.result_edges(e)[0])
    rep.ob("R16.3", "only-validated-sources|Operation::parse", bool(okret) and opf.must_pass(okv | src, okret), "every Ok command comes from parse_kip or from a validated tree", opf.file + ":%d" % opf.line)
    vcmd = prog.fn(P + "::validate_command")
    rep.ob("R16.3", "kml-to-plan|validate_command", bool(vcmd.calls_named(r"kml::validate_plan$")) and bool(vcmd.calls_named(r"kml::validate_exact_patterns$")),
           "validate_command sends KML to validate_plan and EXPORT CAPSULE selectors to validate_exact_patterns", vcmd.file + ":%d" % vcmd.line)
    vpl = prog.fn(KML + "::validate_plan")
    rep.saw(vpl, len(vpl.events))
    vcl = vpl.calls_named(r"kml::validate_clause$")
    okret = [b for b in vpl.live_blocks() for st in vpl.stmts(b) if st[0] == "A" and st[1]["l"] == 0 and st[2]["k"] == "agg" and st[2]["a"].get("v") == "Ok"]
    errs = set()
    for e in vcl:
        errs |= set(vpl.result_edges(e)[1])
    nexts = vpl.calls_named(r"Iterator::next$")
    loop_of = [n for n in nexts if vcl and vpl.dominates(n.block, vcl[0].block) and vpl.can_reach([vcl[0].block], [n.block])]
    over_clauses = bool(loop_of) and "clauses" in vpl.slice_fields(loop_of[0].args[0], through=lambda ev: ev.callee in core.TRANSPARENT or "into_iter" in (ev.callee or "") or "::iter" in (ev.callee or ""))
    # the loop may be written as `clauses.iter().try_for_each(validate_clause)?`: the validator is handed over as a fn item to an
    # adaptor that visits every element and stops at the first error, and that error must be obeyed
    tfe = [e for e in vpl.calls_named(r"Iterator>?::try_for_each$") if any(
        ((a.get("k") or {}).get("fn") or {}).get("path", "").endswith("kml::validate_clause") for a in e.args if isinstance(a, dict))
        and "clauses" in vpl.slice_fields(e.args[0], through=lambda ev: ev.callee in core.TRANSPARENT or "into_iter" in (ev.callee or "") or "::iter" in (ev.callee or ""))]
    tfe_ok = False
    for e in tfe:
        src_ = e.dest.l
        errs_ = [m_[k_] for (_, adt_, m_) in vpl.outcome_edges(src_) for k_ in ("Err", "Break") if k_ in m_]
        if errs_ and not any(vpl.reachable_from([t]) & set(okret) for t in errs_) and vpl.must_pass([e.block], okret):
            tfe_ok = True
    rep.ob("R16.3", "every-clause|validate_plan", tfe_ok or (bool(vcl) and over_clauses and bool(errs) and not any(vpl.reachable_from([t]) & set(okret) for t in errs) and vpl.must_pass([n.block for n in loop_of], okret)),
           "validate_clause runs in a loop over statement.clauses that every Ok return passes, and its error is obeyed", vpl.file + ":%d" % vpl.line)
    rep.ob("R16.3", "handles|validate_plan", bool(vpl.calls_named(r"KipError::duplicate_local_handle$")) and bool(vpl.calls_named(r"KipError::reference_error$")) and bool(vpl.calls_named(r"kml::collect_clause_handles$")),
           "validate_plan refuses a handle bound twice and a handle that is never bound", vpl.file + ":%d" % vpl.line)

    # ------------------------------------------------------------------ R16.4
    # handle resolution is per clause: the set that receives a clause's WHERE variables is rebuilt for every clause, so a variable
    # bound by one clause's WHERE is not a binding for the next clause (a handle nobody creates would resolve)
    vp = prog.fn(KML + "::validate_plan")
    cw = vp.calls_named(r"::collect_where_variables$")
    heads = [e.block for e in vp.calls_named(r"Iterator>?::next$")]
    ok, why = bool(cw), "anchor: collect_where_variables is not called from validate_plan"
    for w in cw:
        encl = [h for h in heads if vp.dominates(h, w.block) and vp.can_reach([w.block], [h])]
        # the per-clause set: a copy of the plan's handles, or a fresh set that only receives this clause's WHERE variables
        clones = [o[1] for o in vp.slice_back_op(w.args[1], through=lambda ev: False) if o[0] == "call" and re.search(
            r"clone::Clone>?::clone$|BTreeSet::<T>::new$|BTreeSet::<T, A>::new(_in)?$|Default>?::default$", o[1].name or "")]
        if not encl or not clones:
            ok, why = False, "the set given to collect_where_variables is not a per-clause copy of the plan's handles"
            continue
        inner = [h for h in encl if not any(h2 != h and vp.dominates(h, h2) for h2 in encl)][0]
        if not all(vp.dominates(inner, c.block) and vp.can_reach([c.block], [inner]) for c in clones):
            ok, why = False, "the set that receives a clause's WHERE variables is created outside the loop over the clauses: bindings accumulate from clause to clause"
    rep.ob("R16.3", "where-bindings-scoped-to-their-clause|validate_plan", ok, why, cw[0].where() if cw else vp.file + ":%d" % vp.line)

    rep.rule("R16.4", "update guard reached from the Update arm; immutable/protected tables referenced only by their guards; text-path combinators apply the protected-field test too; the kind scan covers every clause", floor=7)
    R = region(arms.get("Update", ()))
    gu = [e for e in vc.calls_named(r"kml::guard_update$") if e.block in R]
    ok = bool(gu)
    if ok:
        errs = set()
        for e in gu:
            errs |= set(vc.result_edges(e)[1])
        okr = [b for b in vc.live_blocks() for st in vc.stmts(b) if st[0] == "A" and st[1]["l"] == 0 and st[2]["k"] == "agg" and st[2]["a"].get("v") == "Ok"]
        ok = bool(errs) and not any(vc.reachable_from([t]) & set(okr) for t in errs)
    rep.ob("R16.4", "guard-in-update-arm", ok, "guard_update is called in the Update arm and its refusal is obeyed", vc.file + ":%d" % vc.line)

    def const_users(name):
        users = set()
        for f in prog.fns.values():
            if f.crate != "anda_kip":
                continue
            for b in f.live_blocks():
                for st in f.stmts(b):
                    if st[0] == "A":
                        for o in core._rvalue_operands(st[2]):
                            if ((o.get("k") or {}).get("def") or "").endswith("::" + name):
                                users.add(prog.outer_fn(f).path.rsplit("::", 1)[1])
                t = f.term(b)
                if t["k"] == "call":
                    for o in t["args"]:
                        if ((o.get("k") or {}).get("def") or "").endswith("::" + name):
                            users.add(prog.outer_fn(f).path.rsplit("::", 1)[1])
        return users
    for cname, allowed in (("ASSERTION_IMMUTABLE", {"guard_immutable_field", "guard_update"}), ("EVIDENCE_IMMUTABLE", {"guard_immutable_field", "guard_update"}),
                           ("PROPOSITION_IMMUTABLE", {"guard_immutable_field", "guard_update"}), ("PROTECTED_FIELDS", {"is_protected_field"})):
        u = const_users(cname)
        rep.ob("R16.4", "table-users|%s" % cname, bool(u) and u <= allowed, "%s is referenced by %s (allowed: %s) - a second, divergent use of the table" % (cname, sorted(u), sorted(allowed)), KML)
    for name in ("assignments", "unset_field_set"):
        f = prog.fn(P + "::common::" + name)
        rs = prog.reach_set([f.id])
        rep.ob("R16.4", "text-path-checks|%s" % name, bool(rs & ipf), "the text combinator %s applies is_protected_field while reading (sibling of the tree validator)" % name, f.file + ":%d" % f.line)
    gu_f = prog.fn(KML + "::guard_update")
    rep.ob("R16.4", "guard-uses-immutable-test|guard_update", bool(gu_f.calls_named(r"kml::guard_immutable_field$")) or bool([1 for k in prog.closures_of(gu_f) if k.calls_named(r"kml::guard_immutable_field$")]),
           "guard_update tests fields against the immutable-payload tables", gu_f.file + ":%d" % gu_f.line)

    # ------------------------------------------------------------------ R16.5
    # the kind scan looks at *every* WHERE clause and reports *every* kind the target is bound to: a nested NOT / OPTIONAL /
    # UNION block (whether or not it binds the target) and an earlier binding must not end the scan - the pattern that makes
    # the target an Assertion may follow - otherwise the immutable-payload and structural guards are evaluated for the wrong
    # kind (or for none) and the UPDATE is accepted.  Structurally: the loop over the clauses runs to exhaustion; no return
    # is reachable from inside the loop body.
    cands = prog.fns_matching(r"^anda_kip::parser::kml::bound_kinds?_of$")
    if not cands:
        raise CheckerFault("anchor missing: the kind scan (bound_kind_of / bound_kinds_of)")
    bk = cands[0]
    rep.saw(bk, len(bk.events))
    nexts = bk.calls_named(r"Iterator>?::next$")
    heads = [e.block for e in nexts]
    rets = set(bk.return_blocks())
    early = set()
    for nx_ in nexts:
        h = nx_.block
        # the loop body starts at the `Some(clause)` edge of the test of next()'s result (the None edge is the exhaustion exit)
        some_t = [m["Some"] for (sb, adt, m) in bk.outcome_edges(nx_.dest.l) if adt == "core::option::Option" and "Some" in m]
        if not some_t:
            raise CheckerFault("kind scan: the Some edge of the clause iterator was not found")
        body = {b for b in bk.reachable_from(some_t, avoid={h}) if b != h and bk.can_reach([b], [h])}
        # blocks inside the loop from which a return is reachable without coming back to the head
        for b in body:
            if bk.reachable_from([b], avoid={h}) & rets:
                # the edge out of the loop taken when the iterator is exhausted starts at the head's own successors, not in the body
                early.add(b)
    # the exhaustion exit: the blocks between `next()` returning None and the return are not "inside the loop"
    rep.ob("R16.4", "kind-scan-visits-every-clause|%s" % bk.path.rsplit("::", 1)[1], bool(heads) and not early,
           "the scan that tells the UPDATE guards which kind the target is bound to returns from inside its loop over the WHERE clauses "
           "(at the first binding or nested block): a later pattern that binds the target as an Assertion / Evidence / Proposition is never seen",
           bk.file + ":%d" % (bk.term(sorted(early)[0]).get("ln", bk.line) if early else bk.line))

    # the plan itself declares the kind of a handle it creates (CREATE ASSERTION ?a ... UPDATE ?a ...): the immutable-payload
    # and structural guards must also run with that kind, not only with the kinds the statement's own WHERE names
    bkind = KML + "::BoundKind"
    creating = [v["name"] for v in mc["variants"] if v["fields"] and any(
        fd["name"] == "handle" for a in v["fields"][0]["adts"] if a.startswith(AST + "::") and prog.adts.get(a, {}).get("kind") == "Struct"
        for fd in prog.adts[a]["variants"][0]["fields"])]
    if len(creating) < 6:
        raise CheckerFault("anchor missing: record-creating clause variants (found %s)" % creating)
    gif = {f.id for f in prog.fns.values() if f.path in (KML + "::guard_immutable_field", KML + "::guard_structural_mutation")}
    if len(gif) < 2:
        raise CheckerFault("anchor missing: guard_immutable_field / guard_structural_mutation")

    def kind_arms(g):
        """creating variants in whose arm g builds a BoundKind value"""
        out = set()
        for v, blocks in arm_regions(g, MC).items():
            for b in blocks:
                for st in g.stmts(b):
                    if st[0] == "A" and st[2]["k"] == "agg" and (st[2]["a"].get("def") or "") == bkind:
                        out.add(v)
        return out
    producers = {}
    for g in prog.fns.values():
        if g.crate == "anda_kip" and g.path.startswith(KML + "::"):
            ka = kind_arms(g)
            if ka:
                producers[g.id] = ka
    reach_vp = prog.reach_set([vp.id]) | {vp.id}
    used = {gid: ka for gid, ka in producers.items() if gid in reach_vp}
    covered = set().union(*used.values()) if used else set()
    # the produced kind must reach the guards: some function validate_plan reaches both obtains a kind from a producer
    # (or is one) and calls into the guards with a value derived from it
    feeds = False
    for fid in reach_vp:
        g = prog.fns.get(fid)
        if g is None:
            continue
        def _hands_producer(e):
            for a in e.args:
                k_ = a.get("k") if isinstance(a, dict) else None
                if k_ and "fn" in k_ and (k_["fn"].get("rid") in used or k_["fn"].get("id") in used):
                    return True         # `.and_then(declared_kind_of)`: the producer is handed over as a fn item
            return False
        srcs = [e.dest.l for e in g.calls() if e.dest is not None and (set(prog.callee_nodes(e)) & set(used) or _hands_producer(e))]
        if fid in used:
            srcs += [st[1]["l"] for b in g.live_blocks() for st in g.stmts(b)
                     if st[0] == "A" and st[2]["k"] == "agg" and (st[2]["a"].get("def") or "") == bkind]
        if not srcs:
            continue
        der = g.derived_locals(srcs, mut_args=True)
        for e in g.calls():
            if any(core.op_place(a) is not None and core.op_place(a).l in der for a in e.args) and (
                    set(prog.callee_nodes(e)) & gif or any(prog.reach_set([n]) & gif for n in prog.callee_nodes(e) if n in prog.fns)):
                feeds = True
    missing = [v for v in creating if v not in covered]
    rep.ob("R16.4", "plan-declared-kind-guarded|validate_plan", bool(used) and feeds and not missing,
           "an UPDATE whose target handle is created by the same plan is guarded only with the kinds its own WHERE names: no function reachable from "
           "validate_plan derives a kind from the creating clause (%s) and hands it to the immutable-payload / structural guards "
           "- CREATE ASSERTION ?a {..} UPDATE ?a SET FIELDS {confidence: 1.0} is accepted" % (", ".join(missing) or "kind never reaches a guard"),
           vp.file + ":%d" % vp.line)

    # ------------------------------------------------------------------ R16.6 every handle position is resolved
    rep.rule("R16.6", "handle resolution is complete (type-directed): every field of every mutation clause whose type can spell a ?handle reference "
             "(ElementRef, MutationValue, BoundValue, Term - transitively) is read in its arm of collect_clause_handles and handed to a collector", floor=30)
    cch = prog.fn(KML + "::collect_clause_handles")
    rep.saw(cch, len(cch.events))
    LEAF = {AST + "::" + n for n in ("ElementRef", "MutationValue", "BoundValue", "Term")}
    missing_leaf = [l for l in LEAF if l not in prog.adts]
    if missing_leaf:
        raise CheckerFault("anchor missing: %s" % missing_leaf)
    HB = set(LEAF)
    grew = True
    while grew:
        grew = False
        for pth, a in prog.adts.items():
            if pth.startswith(AST + "::") and pth not in HB and any(x in HB for v in a["variants"] for fd in v["fields"] for x in fd["adts"]):
                HB.add(pth)
                grew = True
    # selector patterns bind variables instead of referencing handles: WHERE blocks, and the MATCH object of UPSERT
    # (identity keys there must be literal or parameter: upsert_has_stable_identity_selector / validate_exact_object_matcher)
    SELECTOR = {AST + "::WhereClause", AST + "::MatchValue"}
    ch_arms = arm_regions(cch, MC)
    sink_ids = {f.id for f in prog.fns.values() if f.crate == "anda_kip" and f.id != cch.id and any(
        re.search(r"BTreeSet::<T, A>::insert$", e.name or "") for e in f.calls())}
    sink_ids |= {fid for fid in prog.fns if prog.fns[fid].crate == "anda_kip" and prog.reach_set([fid]) & sink_ids}
    for var in mc["variants"]:
        if not var["fields"]:
            continue
        payload = [a for a in var["fields"][0]["adts"] if a.startswith(AST + "::")]
        padt = prog.adts.get(payload[0]) if payload else None
        if padt is None or padt["kind"] != "Struct":
            continue
        for fd in padt["variants"][0]["fields"]:
            hb = set(fd["adts"]) & HB
            if not hb:
                continue
            if hb <= SELECTOR:
                rep.note("selector-field:%s.%s" % (var["name"], fd["name"]), "binding position, not a reference")
                continue
            Rg = set(ch_arms.get(var["name"], ()))
            dests = field_read_dests(cch, Rg, fd["name"])
            ok = False
            if dests:
                der = cch.derived_locals([d for d, _ in dests])
                for e in cch.calls():
                    if e.block in Rg and any(core.op_place(a) is not None and core.op_place(a).l in der for a in e.args):
                        nodes = set(prog.callee_nodes(e))
                        if nodes & sink_ids or re.search(r"BTreeSet::<T, A>::insert$", e.name or ""):
                            ok = True
            rep.ob("R16.6", "resolved|%s.%s" % (var["name"], fd["name"]), ok,
                   "%s.%s (%s) can spell a ?handle but collect_clause_handles never hands it to a collector in the %s arm: an unbound (or misspelt) "
                   "handle there is accepted" % (var["name"], fd["name"], "/".join(sorted(x.rsplit("::", 1)[1] for x in hb)), var["name"]),
                   cch.file + ":%d" % cch.line)

    rep.rule("R16.5", "ASSERT expands to exactly EnsureProposition + CreateAssertion (+ SupersedeAssertion); missing by / mode refused", floor=3)
    af = prog.fn(KML + "::assert_statement")
    rep.saw(af, len(af.events))
    built = {}
    for f in [af] + prog.closures_of(af):
        for b in f.live_blocks():
            for st in f.stmts(b):
                if st[0] == "A" and st[2]["k"] == "agg" and st[2]["a"].get("def") == MC:
                    built.setdefault(st[2]["a"]["v"], []).append((f, b))
    rep.ob("R16.5", "expansion-set|assert_statement", set(built) == {"EnsureProposition", "CreateAssertion", "SupersedeAssertion"},
           "ASSERT builds clauses %s (expected exactly EnsureProposition, CreateAssertion and the optional SupersedeAssertion)" % sorted(built), af.file + ":%d" % af.line)
    # Supersede only under the `superseding` option; the other two unconditionally in the expansion closure
    ok = True
    for v in ("EnsureProposition", "CreateAssertion"):
        for (f, b) in built.get(v, []):
            ok = ok and f.must_pass([b], f.return_blocks())
    for (f, b) in built.get("SupersedeAssertion", []):
        ok = ok and not f.must_pass([b], f.return_blocks())
    rep.ob("R16.5", "expansion-shape|assert_statement", ok and bool(built), "the proposition and the assertion are always emitted, the supersede clause only when SUPERSEDING was written", af.file + ":%d" % af.line)
    # by / mode: the None edge of each lookup returns through fail(..)
    lookups = [e for e in af.calls() if e.cid in {k.id for k in prog.closures_of(af)} or re.search(r"Option::<&T>::cloned$|Option::<T>::cloned$", e.callee or "")]
    fails = af.calls_named(r"common::fail$")
    strs = set()
    for b in af.live_blocks():
        t = af.term(b)
        if t["k"] == "call":
            for a in t["args"]:
                k = a.get("k") or {}
                if k.get("str") in ("by", "mode"):
                    strs.add(k["str"])
        for st in af.stmts(b):
            if st[0] == "A":
                for o in core._rvalue_operands(st[2]):
                    k = o.get("k") or {}
                    if k.get("str") in ("by", "mode"):
                        strs.add(k["str"])
    none_to_fail = 0
    for (sb, place, adt, m, els) in af.variant_edges():
        if adt == "core::option::Option" and "None" in m and "anda_kip::ast::MutationValue" in af.locals[place.l]:
            r = af.reachable_from([m["None"]])
            if any(fe.block in r for fe in fails) and not any(b in r for b in _ok_blocks(af)):
                none_to_fail += 1
    rep.ob("R16.5", "actor-and-mode-required|assert_statement", strs == {"by", "mode"} and none_to_fail >= 2,
           "the `by` and `mode` members are looked up and their absence returns a parse failure (%d refusing None edges)" % none_to_fail, af.file + ":%d" % af.line)
    # the ASSERT member test and the expansion agree on what a member name is: both compare exactly.  A membership test that folds
    # case admits `Stance:` / `CONFIDENCE:` while the exact lookups of the expansion never find them - the member the author wrote
    # is silently dropped (worst case: `Stance: "reject"` expands with the default stance "support")
    asf = prog.fn(KML + "::assert_statement")
    folds = [e for g in [asf] + prog.closures_of(asf) for e in g.calls()
             if re.search(r"eq_ignore_ascii_case|to_lowercase|to_ascii_lowercase|to_uppercase|to_ascii_uppercase|make_ascii_lowercase|make_ascii_uppercase", e.name or "")]
    uses_table = any((core.op_const(o) or {}).get("def", "").endswith("::ASSERT_MEMBERS") for g in [asf] + prog.closures_of(asf)
                     for b in g.live_blocks() for st in g.stmts(b) if st[0] == "A" for o in core._rvalue_operands(st[2])) or \
        any((core.op_const(a) or {}).get("def", "").endswith("::ASSERT_MEMBERS") for g in [asf] + prog.closures_of(asf)
            for b in g.live_blocks() if g.term(b)["k"] == "call" for a in g.term(b)["args"])
    rep.ob("R16.5", "member-names-compared-exactly|assert_statement", uses_table and not folds,
           "ASSERT member names are matched with a case-folding comparison (%s) while the expansion looks members up exactly: a member spelled in "
           "another case is accepted and then dropped" % sorted({e.name.rsplit("::", 1)[1] for e in folds}) if folds else
           "anchor: assert_statement no longer consults ASSERT_MEMBERS", folds[0].where() if folds else asf.file + ":%d" % asf.line)
    return rep.finish(EXPLAIN)


def _ok_blocks(f):
    return [b for b in f.live_blocks() for st in f.stmts(b) if st[0] == "A" and st[1]["l"] == 0 and st[2]["k"] == "agg" and st[2]["a"].get("v") == "Ok"]


def _cut_at_loop(f, blocks, loop_heads):
    """Blocks of an arm region that are reached before control returns to the enclosing loop head."""
    return {b for b in blocks if b not in loop_heads and not any(f.dominates(h, b) and False for h in loop_heads)}
