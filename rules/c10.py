"""C10 — B-tree index equals an ordered multimap across flush, crash and threads.  (DESIGN §4 C10)"""
import re

from lib import core, valueflow
from lib.report import CheckerFault
from . import idxcommon as ix
from .c06_db import _bool_switch

EXPLAIN = (
    "Static analysis over rustc MIR of anda_db_btree and anda_db::index::btree: R10.1 every mutator holds the mutation gate (shared; compaction exclusive) across all of its "
    "mutable accesses to postings/buckets/btree, and only the confirmed functions obtain such access; R10.2 manifest commit - bucket objects before the manifest, in-memory publication "
    "(last_saved_version, manifest, dirty marks) only on the Ok edge of the commit, snapshot before the first await, obsolete objects deleted only after the commit, conditional manifest put; "
    "R10.3 the ordered-key set is changed only under its lock with the posting map re-checked inside (insert: contains_key after btree.write(); remove: remove_if + single remover helper); "
    "R10.4 uniqueness re-check under the entry lock and insert-before-remove (shared with C04); R10.5 loader order metadata -> buckets and the object list derived from the manifest; "
    "R10.6 recursive query evaluation is depth-checked before recursing. Not decided: equality with the ordered-multimap model, early-termination positions, crash-prefix content.")

BI = "anda_db_btree::btree::BTreeIndex::<PK, FV>"


def run(rep, tier):
    prog = ix.load()
    rep.not_decided = "model equality for any history, early-termination positions, crash-prefix content, no-loss under real interleavings"
    rep.assumptions = ["rustc MIR", "DashMap entry/get_mut hold the shard lock", "parking_lot RwLock is a lock", "callers exclude flush vs mutation (collection gate, C05)"]

    rep.rule("R10.1", "mutation gate: shared in insert/remove/insert_array/remove_array, exclusive in compact_buckets, held at every mutable access; who-may-mutate table", floor=16)
    ix.mutation_gate_rules(rep, "R10.1", prog, BI, ["insert", "remove", "insert_array", "remove_array"], "compact_buckets",
                           ["postings", "buckets", "btree"], ["remove_btree_key_if_posting_absent"],
                           {"load_buckets": "&mut self loader (exclusive by type)", "mark_bucket_snapshot_saved": "flush bookkeeping; flush is excluded from mutations by the caller's exclusive gate (C05 R05.1)"})
    f = prog.fn(BI + "::batch_update")
    rep.ob("R10.1", "batch_update-via-gated|batch_update", not ix.state_mutations(f, ["postings", "buckets", "btree"]) and bool(f.calls_named(r"::insert_array$")) and bool(f.calls_named(r"::remove_array$")),
           "batch_update mutates only through the gated insert_array/remove_array", f.file + ":%d" % f.line)

    rep.rule("R10.2", "manifest commit protocol of flush_owned_with and the anda_db wrapper", floor=9)
    f = prog.fn(BI + "::flush_owned_with")
    ix.manifest_commit_rules(rep, "R10.2", prog, f, "BTreeIndex::flush_owned_with", bucket_ty="F", meta_ty="M")
    w = prog.fn("anda_db::index::btree::InnerBTree::<FV>::flush_inner") if prog.has_fn("anda_db::index::btree::InnerBTree::<FV>::flush_inner") else None
    if w is None:
        cands = prog.fns_matching(r"anda_db::index::btree::InnerBTree::<\w+>::flush_inner$")
        if not cands:
            raise CheckerFault("anchor missing: InnerBTree::flush_inner")
        w = prog.async_body(cands[0]) or cands[0]
    ix.wrapper_flush_rules(rep, "R10.2", prog, w, "InnerBTree::flush_inner", r"BTreeIndex::<PK, FV>::flush_owned_with$")

    # the dirty flag of a bucket is cleared only if the bucket was not modified while its snapshot was being written
    g = prog.fn(BI + "::mark_bucket_snapshot_saved")
    rep.saw(g, len(g.events))
    rb = [b for b in g.live_blocks() for st in g.stmts(b) if st[0] == "A" and st[1].get("p") and isinstance(st[1]["p"][-1], dict)
          and st[1]["p"][-1].get("n") == "1" and st[2]["k"] == "use" and (core.op_const(st[2]["o"]) or {}).get("int") == "0"]
    ix.retire_under_equality(rep, "R10.2", g, "mark_bucket_snapshot_saved", rb, {"3"}, "clearing a bucket's dirty flag")

    nsz = ix.size_change_marks_dirty(rep, "R10.2", prog, "btree")
    if nsz < 8:
        rep.fault("R10.2: only %d bucket size writes found in the B-tree mutators" % nsz)

    # a multi-value update refused by the unique check leaves the old postings in place (insert the new values first)
    from .c04 import update_order_rules
    update_order_rules(rep, "R10.2", prog)

    rep.rule("R10.3", "ordered key set changed only under its write lock with the posting map re-checked inside; empty postings removed atomically (remove_if)", floor=6)
    for name in ("insert", "insert_array"):
        f = prog.fn(BI + "::" + name)
        bw = [e for e in f.calls_named(r"lock_api::rwlock::RwLock::<R, T>::write$") if "btree" in ix.recv_fields(f, e)]
        ins = [e for e in f.calls_named(r"BTreeSet::<T, A>::insert$")]
        ck = [e for e in f.calls_named(r"dashmap::DashMap::<K, V, S>::contains_key$") if "postings" in ix.recv_fields(f, e)]
        ok = bool(bw) and bool(ins) and bool(ck)
        for i in ins:
            good = False
            for c in ck:
                ft, tt = _bool_switch(f, c)
                if any(f.dominates(b.block, c.block) for b in bw) and tt is not None and f.dominates(tt, i.block) and i.block not in f.reachable_from([ft], avoid=[c.block]):
                    good = True
            ok = ok and good
        rep.ob("R10.3", "key-insert-rechecked|%s" % name, ok, "btree.insert(key) must lie on the true edge of postings.contains_key evaluated after btree.write()", (ins[0].where() if ins else f.file))
    for name in ("remove", "remove_array"):
        f = prog.fn(BI + "::" + name)
        # round 0 accepted `remove_if(.., is_empty)` after the posting guard was released; the C10 audit showed the gap in between hands
        # readers a key with an empty id set.  The emptied posting has to go while the entry lock that emptied it is still held.
        rm = [e for e in f.calls_named(r"dashmap::DashMap::<K, V, S>::(remove|remove_if)$") if "postings" in ix.recv_fields(f, e)]
        ent = [e for e in f.calls_named(r"dashmap::DashMap::<K, V, S>::entry$") if "postings" in ix.recv_fields(f, e)]
        orm = [e for e in f.calls_named(r"dashmap::mapref::entry::OccupiedEntry::<'a, K, V>::remove$|OccupiedEntry::<.*>::remove(_entry)?$")
               if any(f.dominates(x.block, e.block) for x in ent)]
        emp = [e for e in f.calls_named(r"::is_empty$") if any(f.dominates(e.block, o_.block) for o_ in orm) and any(f.dominates(x.block, e.block) for x in ent)]
        rep.ob("R10.3", "emptied-posting-deleted-under-entry-lock|%s" % name, bool(ent) and bool(orm) and bool(emp) and not rm,
               "%s empties a posting through a guard it then releases and deletes the entry afterwards (remove_if): in between a reader is handed the key with an "
               "empty id set (query_with returns Some(0), scans receive []) - the entry must be removed through the OccupiedEntry that emptied it" % name,
               (rm[0].where() if rm else f.file + ":%d" % f.line))
    h = prog.fn(BI + "::remove_btree_key_if_posting_absent")
    bw = [e for e in h.calls_named(r"lock_api::rwlock::RwLock::<R, T>::write$") if "btree" in ix.recv_fields(h, e)]
    ck = [e for e in h.calls_named(r"dashmap::DashMap::<K, V, S>::contains_key$")]
    rmk = h.calls_named(r"BTreeSet::<T, A>::remove$")
    ok = bool(bw) and bool(ck) and bool(rmk)
    if ok:
        ft, tt = _bool_switch(h, ck[0])
        ok = h.dominates(bw[0].block, ck[0].block) and ft is not None and h.dominates(ft, rmk[0].block) and rmk[0].block not in h.reachable_from([tt])
    rep.ob("R10.3", "key-remove-rechecked|remove_btree_key_if_posting_absent", ok, "the key is removed only on the posting-absent edge, tested after btree.write()", h.file + ":%d" % h.line)
    removers = set()
    for f in prog.fns.values():
        if f.crate == "anda_db_btree" and prog.outer_fn(f).path.startswith(BI + "::"):
            for e in f.calls_named(r"BTreeSet::<T, A>::(remove|clear|retain)$"):
                ty = f.locals[core.op_place(e.args[0]).l] if core.op_place(e.args[0]) is not None else ""
                if "btree" in ix.recv_fields(f, e) or "RwLockWriteGuard" in ty:
                    removers.add(prog.outer_fn(f).path.rsplit("::", 1)[1])
    rep.ob("R10.3", "single-key-remover", removers <= {"remove_btree_key_if_posting_absent", "load_buckets", "compact_buckets"} and "remove_btree_key_if_posting_absent" in removers,
           "keys leave the ordered set only through remove_btree_key_if_posting_absent (plus loader repair); found %s" % sorted(removers), BI)

    rep.rule("R10.5", "loader: load_metadata before load_buckets; bucket objects enumerated from the manifest on the non-legacy edge", floor=2)
    f = prog.fn(BI + "::load_all")
    lm = f.calls_named(r"::load_metadata$")
    lb = f.calls_named(r"::load_buckets$")
    okm = set()
    for e in lm:
        okm |= set(f.result_edges(e)[0])
    rep.ob("R10.5", "metadata-then-buckets|load_all", bool(lm) and bool(lb) and bool(okm) and f.must_pass(okm, [e.block for e in lb]), "buckets are loaded only after the metadata (manifest) was decoded", f.file + ":%d" % f.line)
    f = prog.fn(BI + "::load_buckets")
    rep.saw(f, len(f.events))
    man = [l for l in f.var_locals("manifest")]
    flds = set()
    for e in f.calls():
        if e.name.endswith("::clone") or e.name.endswith("::read"):
            flds |= ix.recv_fields(f, e)
    cb = [e for e in f.calls() if re.search(r"AsyncFnMut::async_call_mut$|FnMut::call_mut$", e.callee or "")]
    objs = f.var_locals("objects")
    ok = bool(man) and "buckets" in flds and bool(cb) and bool(objs)
    if ok:
        der = f.derived_locals(man)
        ok = any(o in der for o in objs)
    rep.ob("R10.5", "objects-from-manifest|load_buckets", ok, "the list of bucket objects to load derives from metadata.buckets (the committed manifest)", f.file + ":%d" % f.line)

    rep.rule("R10.6", "recursive range-query evaluation checks depth() against MAX_DEPTH before recursing", floor=2)
    for path, rec_rx in (("anda_db_btree::btree::RangeQuery::<FV>::try_convert_from", r"::try_convert_from_inner$"), (BI + "::range_query_inner", r"::range_keys$|::range_query_inner$")):
        f = prog.fn(path)
        rep.saw(f, len(f.events))
        dp = f.calls_named(r"RangeQuery::<FV>::depth$")
        rec = f.calls_named(rec_rx) + [e for e in f.creates()]
        ok = bool(dp)
        if ok:
            # comparison with MAX_DEPTH and the exceeding edge reaches no recursion
            good = False
            for b in f.live_blocks():
                for st in f.stmts(b):
                    if st[0] == "A" and st[2]["k"] == "bin" and st[2]["op"] in ("Gt", "Ge", "Lt", "Le"):
                        cds = [(o.get("k") or {}).get("def", "") for o in (st[2]["a"], st[2]["b"])]
                        if any(c.endswith("MAX_DEPTH") for c in cds):
                            t = f.term(b)
                            if t["k"] == "switch":
                                exceed = t["else"] if st[2]["op"] in ("Gt", "Ge") else dict(t["v"]).get("0")
                                rr = f.reachable_from([exceed])
                                recs = [e for e in f.calls_named(rec_rx)]
                                if not any(e.block in rr for e in recs) and all(f.must_pass([b], [e.block]) for e in recs) and recs:
                                    good = True
            ok = good
        rep.ob("R10.6", "depth-checked|%s" % path.rsplit("::", 1)[1], ok, "the depth test against MAX_DEPTH dominates the recursive evaluation and its exceeding edge does not reach it", f.file + ":%d" % f.line)
    # the recursive SCC is reachable only through the checked entry
    callers = set()
    for f in prog.fns.values():
        if f.crate in ("anda_db_btree", "anda_db"):
            for e in f.calls_named(r"RangeQuery::<FV>::try_convert_from_inner$"):
                callers.add(prog.outer_fn(f).path.rsplit("::", 1)[1])
    rep.ob("R10.6", "inner-only-via-checked", callers <= {"try_convert_from", "try_convert_from_inner"}, "try_convert_from_inner is reachable only through the depth-checked entry (callers %s)" % sorted(callers), BI)
    # ------------------------------------------------------------------ R10.7 Not is decided under the lock that walks the keys
    rep.rule("R10.7", "Not(q) is decided per key under the one read lock that walks the ordered key set (as And is): an exclusion set built by a recursive "
             "range_keys call under an earlier lock misses keys inserted in between", floor=2)
    from .c16 import arm_regions
    RQ = "anda_db_btree::btree::RangeQuery"
    for name in ("range_query_inner", "range_keys"):
        f = prog.fn(BI + "::" + name)
        rep.saw(f, len(f.events))
        regs = arm_regions(f, RQ)
        if "Not" not in regs or "And" not in regs:
            raise CheckerFault("anchor missing: RangeQuery arms of %s (%s)" % (name, sorted(regs)))
        own = set(regs["Not"]) - set().union(*[set(b) for v, b in regs.items() if v != "Not"])
        rec = [e for e in f.calls_named(r"BTreeIndex::<PK, FV>::range_keys$") if e.block in own]
        rep.ob("R10.7", "not-decided-under-the-walking-lock|%s" % name, not rec,
               "the Not arm of %s first collects the keys matching q with a recursive range_keys call (its own lock scope) and then walks the key set under a "
               "second read lock: a key inserted in between is walked but not excluded - under a concurrent writer Not(Eq(5)) returns key 5" % name,
               (rec[0].where() if rec else f.file + ":%d" % f.line))

    return rep.finish(EXPLAIN)
