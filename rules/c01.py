"""C01 — flushed documents survive any crash; recovery converges.  (DESIGN §4 C01)

Decides the write-ordering / write-ahead skeleton of the crash protocol of anda_db::collection."""
import re

from lib import core, valueflow
from lib.report import CheckerFault
from . import anda

EXPLAIN = (
    "Static analysis over rustc MIR of anda_db::collection: R01.1 total order of the durable steps of the checkpoint on every path "
    "(indexes < collection metadata < ids < storage checkpoint < intent retirement), each later step only on the Ok edge of the earlier, "
    "no unclassified durable write in the checkpoint; R01.2 the mutation intent is recorded before any index mutation or document write in "
    "update/remove (path-sensitive on the fetched-document option); R01.3 allocation watermark before the document create, memory never ahead "
    "of the durable watermark; R01.4 an unknown write outcome reaches the poison function before returning; R01.5 id allocator is fetch_add/fetch_max only; "
    "R01.6 who-may-write table of the commit objects keyed by path constants; R01.7 recovery order in open; R01.9 no storage-write Result dropped. "
    "Not decided: that these steps suffice (convergence of recovery, nested crashes, backend semantics).")

WRITE_API = re.compile(r"^anda_db::storage::Storage::(create|put|put_bytes|delete|drop_prefix|drop_data|to_writer|stream_writer|store_metadata)$")


def _step_events(f, rx):
    return f.calls_named(rx)


def _ok_err(f, e):
    return f.result_edges(e)


def effect_sites(prog, f, nodeset):
    """Call/await events reaching `nodeset`; a closure creation counts only when the closure is not
    invoked by a direct call in the same function (then the invocations are the sites)."""
    invoked = set()
    for e in f.events:
        if e.kind == "call":
            for n in prog.callee_nodes(e):
                if n in prog.fns and prog.fns[n].kind == "Closure":
                    invoked.add(n)
    out = []
    for e in f.events:
        if e.kind == "ref" or e.callee in core.NOISE_CALLEES:
            continue
        if not prog.event_in(e, nodeset):
            continue
        if e.kind == "create" and e.cid in invoked:
            continue
        out.append(e)
    return out


def path_class(prog, f, e, argi=1):
    """Classify the path operand of a Storage write event: const def names / helper fns on its slice."""
    if len(e.args) <= argi:
        return {"?"}
    out = set()
    for o in f.slice_back_op(e.args[argi]):
        if o[0] == "const":
            d = o[1].get("def")
            if d:
                out.add(d.rsplit("::", 1)[1])
            elif "str" in o[1]:
                out.add("lit:" + o[1]["str"])
        elif o[0] == "call":
            n = o[1].name.rsplit("::", 1)[1]
            out.add("fn:" + n)
        elif o[0] == "upvar":
            out.add("upvar:" + o[1])
        elif o[0] == "arg":
            out.add("arg")
    return out or {"?"}


def run(rep, tier):
    prog = anda.load()
    C = anda.Coll(prog)
    rep.not_decided = "sufficiency of the protocol (recovery convergence, nested crashes, write-landed-but-error semantics of a backend), document integrity"
    rep.assumptions = ["rustc MIR construction and callee resolution", "object_store puts are atomic", "unwind paths ignored"]
    eff = prog.reaching(anda.is_storage_write)

    def body(name):
        return prog.fn(anda.COLL + "::" + name)

    # ------------------------------------------------------------------ R01.1 checkpoint order
    rep.rule("R01.1", "flush_inner: store_indexes < store_metadata < store_ids < Storage::store_metadata < clear_mutation_intents on every path; Ok-edge chaining; no unclassified write", floor=14)
    f = body("flush_inner")
    rep.saw(f, len(f.events))
    steps = [("store_indexes", r"Collection::store_indexes$"), ("store_metadata", r"Collection::store_metadata$"),
             ("store_ids", r"Collection::store_ids$"), ("storage_checkpoint", r"^anda_db::storage::Storage::store_metadata$"),
             ("clear_mutation_intents", r"Collection::clear_mutation_intents$")]
    ev = {n: f.calls_named(rx) for n, rx in steps}
    for n, rx in steps:
        if not ev[n]:
            raise CheckerFault("anchor missing: %s not called in flush_inner" % n)
    names = [n for n, _ in steps]
    for i, a in enumerate(names):
        for b in names[i + 1:]:
            ab, bb = {e.block for e in ev[a]}, {e.block for e in ev[b]}
            ok = not f.can_reach(bb, ab)
            rep.ob("R01.1", "order|%s<%s" % (a, b), ok, "%s must never run after %s in the checkpoint" % (a, b), ev[b][0].where())
    # mandatory chain: ids and checkpoint only after a metadata write that returned Some; checkpoint after ids
    mb = {e.block for e in ev["store_metadata"]}
    for n in ("store_ids", "storage_checkpoint", "clear_mutation_intents"):
        ok = all(f.must_pass(mb, [e.block]) for e in ev[n])
        rep.ob("R01.1", "requires|store_metadata<%s" % n, ok, "%s must be preceded by the collection metadata write on every path" % n, ev[n][0].where())
    ok = all(f.must_pass({e.block for e in ev["store_ids"]}, [e.block]) for e in ev["storage_checkpoint"])
    rep.ob("R01.1", "requires|store_ids<storage_checkpoint", ok, "the storage checkpoint may advance only after the ids bitmap was stored", ev["storage_checkpoint"][0].where())
    # Ok-edge chaining: the Err edge of each step reaches no later step
    for i, a in enumerate(names):
        later = set()
        for b in names[i + 1:]:
            later |= {e.block for e in ev[b]}
        for e in ev[a]:
            oks, errs = _ok_err(f, e)
            ok = bool(errs) and not any(f.reachable_from([t]) & later for t in errs)
            rep.ob("R01.1", "err-stops|%s" % a, ok, "the Err edge of %s must not reach a later durable step" % a, e.where())
    # store_ids / checkpoint on the Some edge of store_metadata's result
    sm = ev["store_metadata"][0]
    some_edges = []
    src = sm.poll_dest.l if sm.poll_dest is not None else sm.dest.l
    der = f.derived_locals([src], call_filter=lambda t: t["f"].get("path") == core.TRY_BRANCH)
    for (sb, place, adt, m, els) in f.variant_edges():
        if adt == "core::option::Option" and place.l in der and "Some" in m:
            some_edges.append((m["Some"], m.get("None")))
    ok = bool(some_edges) and all(any(f.dominates(s, e.block) for s, _ in some_edges) for e in ev["store_ids"] + ev["storage_checkpoint"])
    rep.ob("R01.1", "some-edge|store_ids,storage_checkpoint", ok,
           "ids and storage checkpoint are written only when the metadata write happened (Some edge of its result)", ev["store_ids"][0].where())
    # completeness: every write-reaching event in flush_inner is one of the classified steps
    classified = set()
    for n in names:
        classified |= {id(e) for e in ev[n]}
    for e in effect_sites(prog, f, eff):
        if id(e) not in classified:
            rep.ob("R01.1", "unclassified-write|%s" % e.name, False, "durable write step %s in the checkpoint is not part of the confirmed order" % e.name, e.where())
    # nothing durable after the intent log is retired
    after = f.reachable_from([e.block for e in ev["clear_mutation_intents"]], include_start=False)
    bad = [e for e in effect_sites(prog, f, eff) if e.block in after and e not in ev["clear_mutation_intents"]]
    rep.ob("R01.1", "nothing-after|clear_mutation_intents", not bad, "no durable write may follow the retirement of the intent log", ev["clear_mutation_intents"][0].where())

    # ------------------------------------------------------------------ R01.2 write-ahead intent
    rep.rule("R01.2", "update_impl/remove_impl: record_mutation_intent precedes every index mutation and the document write (path-sensitive)", floor=5)
    idx = prog.reaching(anda.is_index_mut)
    for name in ("update_impl", "remove_impl"):
        f = body(name)
        rep.saw(f, len(f.events))
        intents = f.calls_named(r"Collection::record_mutation_intent$")
        ib = {e.block for e in intents}
        # the intent must have succeeded: use its Ok edge as the pass-through point
        okb = set()
        for e in intents:
            oks, errs = _ok_err(f, e)
            okb |= set(oks)
        muts = effect_sites(prog, f, idx)
        # no exception for the id sweep of an undecodable stored document: an image-less intent is recordable,
        # and without it a crash after the DELETE leaves the id in the checkpointed bitmap for good
        purge = [e for e in muts if re.search(r"purge_dead_ids_from_indexes$", e.name)]
        ok = bool(okb) and bool(muts) and valueflow.must_pass_ps(f, okb, [e.block for e in muts])
        rep.ob("R01.2", "intent-before-index|%s" % name, ok,
               "every index mutation (%d sites incl. forward/rollback closures and the id sweep) must follow a successful record_mutation_intent" % len(muts),
               (muts[0].where() if muts else f.file))
        docw = [e for e in f.calls_named(r"^anda_db::storage::Storage::(put|put_bytes|delete|create)$") if "fn:doc_path" in path_class(prog, f, e)]
        ok = bool(docw) and valueflow.must_pass_ps(f, okb, [e.block for e in docw])
        rep.ob("R01.2", "intent-before-docwrite|%s" % name, ok,
               "the document write/delete must follow a successful record_mutation_intent on every path (the id-sweep path included)",
               (docw[0].where() if docw else f.file))

    # replay side: an intent that carries no decodable image names no posting, so its id must reach the id sweep
    f = body("reconcile_mutation_intents")
    rep.saw(f, len(f.events))
    sweeps = f.calls_named(r"Collection::purge_dead_ids_from_indexes$")
    origin = {id(o[1]) for e in sweeps if len(e.args) > 1 for o in f.slice_back_op(e.args[1]) if o[0] == "call"}
    ins = [e for e in f.calls_named(r"BTreeSet::<T, A>::insert$")
           if e.args and any(o[0] == "call" and id(o[1]) in origin for o in f.slice_back_op(e.args[0]))]
    decode = {e.block for e in f.calls_named(r"Document::try_from_doc$")}
    if not sweeps or not origin or not decode:
        raise CheckerFault("anchor missing: reconcile_mutation_intents id sweep / image decode")
    free = f.reachable_from([0], avoid=decode)

    def _may_be_none(g, o):
        pl = core.op_place(o)
        return pl is not None and any(k == "agg" and v == "None" for (k, *rest) in g.value_origins(pl.l) for v in rest[1:2])
    imageless = []
    for g in prog.fns.values():
        if g.crate != "anda_db":
            continue
        for e in g.calls_named(r"Collection::record_mutation_intent$"):
            if len(e.args) >= 4 and _may_be_none(g, e.args[2]) and _may_be_none(g, e.args[3]):
                imageless.append(e)
    rep.note("imageless_intent_sites", [e.where() for e in imageless])
    if not imageless:
        rep.ob("R01.2", "imageless-intent-swept|none-recorded", True, "no call records an intent without an image: nothing to sweep on replay", f.file)
    else:
      rep.ob("R01.2", "imageless-intent-swept|reconcile_mutation_intents", any(e.block in free for e in ins),
           "an intent without a (decodable) image must put its id into the id-sweep set: an insertion into the set handed to "
           "purge_dead_ids_from_indexes must be reachable without passing through an image decode (found %d insertions, all behind a decode)" % len(ins),
           sweeps[0].where())

    # ------------------------------------------------------------------ R01.3 allocation watermark
    rep.rule("R01.3", "add_impl: watermark before Storage::create(doc); ensure_allocation_watermark: durable put Ok edge dominates the in-memory raise", floor=3)
    f = body("add_impl")
    rep.saw(f, len(f.events))
    wm = f.calls_named(r"Collection::ensure_allocation_watermark$")
    creates = [e for e in f.calls_named(r"^anda_db::storage::Storage::(create|put|put_bytes)$") if "fn:doc_path" in path_class(prog, f, e)]
    okb = set()
    for e in wm:
        okb |= set(_ok_err(f, e)[0])
    rep.ob("R01.3", "watermark-before-create|add_impl", bool(okb) and bool(creates) and f.must_pass(okb, [e.block for e in creates]),
           "the document object may be created only after ensure_allocation_watermark returned Ok", creates[0].where() if creates else f.file)
    alloc = [e for e in f.calls_named(r"Atomic::<u64>::fetch_add$") if "max_document_id" in anda.recv_fields(f, e)]
    rep.ob("R01.3", "alloc-before-watermark|add_impl", bool(alloc) and bool(wm) and f.must_pass({e.block for e in alloc}, [e.block for e in wm]),
           "the id is allocated before the watermark is ensured for it", wm[0].where() if wm else f.file)
    g = body("ensure_allocation_watermark")
    rep.saw(g, len(g.events))
    puts = [e for e in g.calls_named(r"^anda_db::storage::Storage::(put|put_bytes|create)$") if "ALLOCATION_WATERMARK_PATH" in path_class(prog, g, e)]
    raises = [e for e in g.calls_named(r"Atomic::<u64>::(fetch_max|store|fetch_add|swap)$") if "durable_alloc_watermark" in anda.recv_fields(g, e)]
    okb = set()
    for e in puts:
        okb |= set(_ok_err(g, e)[0])
    rep.ob("R01.3", "durable-before-memory|ensure_allocation_watermark", bool(okb) and bool(raises) and g.must_pass(okb, [e.block for e in raises]),
           "durable_alloc_watermark may be raised only on the Ok edge of the watermark put", raises[0].where() if raises else g.file)
    # every Ok(()) return without a put is guarded by id <= durable watermark: all returns pass a load of the watermark
    loads = [e for e in g.calls_named(r"Atomic::<u64>::load$") if "durable_alloc_watermark" in anda.recv_fields(g, e)]
    rep.ob("R01.3", "fast-path-reads-watermark|ensure_allocation_watermark", bool(loads) and g.must_pass({e.block for e in loads}, g.return_blocks()),
           "every return of ensure_allocation_watermark is preceded by a read of the durable watermark", g.file + ":%d" % g.line)

    # ------------------------------------------------------------------ R01.4 unknown outcome => poison
    rep.rule("R01.4", "unknown write outcome (Err of doc write / flush_inner / compensating delete) reaches the poison function before any return", floor=5)
    pois_rx = "|".join(re.escape(p.path) + "$" for p in C.poison_fns)

    def poison_rule(name, write_events, label, exempt_variant=None):
        f = body(name)
        rep.saw(f, len(f.events))
        pb = {e.block for e in f.calls_named(pois_rx)}
        if not write_events(f):
            rep.ob("R01.4", "poison|%s|%s" % (name, label), False, "anchor site missing: " + label, f.file)
            return
        for e in write_events(f):
            errs = _err_targets(f, e)
            if not errs:
                rep.ob("R01.4", "poison|%s|%s" % (name, label), False, "the error outcome of %s is never examined" % e.name, e.where())
                continue
            avoid = set(pb)
            if exempt_variant:
                for (sb, place, adt, m, els) in f.variant_edges():
                    if adt == "anda_db::error::DBError" and exempt_variant in m:
                        avoid.add(m[exempt_variant])
            rets = set(f.return_blocks())
            bad = [t for t in errs if valueflow.reachable_ps(f, t, avoid=avoid) & rets]
            rep.ob("R01.4", "poison|%s|%s" % (name, label), bool(pb) and not bad,
                   "every path from the Err edge of %s to a return must pass the poison function" % e.name, e.where())

    docput = lambda f: [e for e in f.calls_named(r"^anda_db::storage::Storage::(put|put_bytes)$") if "fn:doc_path" in path_class(prog, f, e)]
    docdel = lambda f: [e for e in f.calls_named(r"^anda_db::storage::Storage::delete$") if "fn:doc_path" in path_class(prog, f, e)]
    poison_rule("update_impl", docput, "document put")
    poison_rule("remove_impl", docdel, "document delete")
    poison_rule("add_impl", docdel, "compensating delete", exempt_variant="NotFound")
    poison_rule("flush", lambda f: f.calls_named(r"Collection::flush_inner$"), "flush_inner")
    poison_rule("close", lambda f: f.calls_named(r"Collection::flush_inner$"), "flush_inner")
    # the compensating delete itself: Err of Storage::create (other than AlreadyExists) reaches the delete
    f = body("add_impl")
    for e in [e for e in f.calls_named(r"^anda_db::storage::Storage::create$") if "fn:doc_path" in path_class(prog, f, e)]:
        errs = _err_targets(f, e)
        avoid = {d.block for d in docdel(f)}
        for (sb, place, adt, m, els) in f.variant_edges():
            if adt == "anda_db::error::DBError" and "AlreadyExists" in m:
                avoid.add(m["AlreadyExists"])
        bad = [t for t in errs if valueflow.reachable_ps(f, t, avoid=avoid) & set(f.return_blocks())]
        rep.ob("R01.4", "compensate|add_impl|create", bool(errs) and not bad,
               "an unknown outcome of the document create must be compensated by a delete before returning", e.where())

    # ------------------------------------------------------------------ R01.5 id allocator
    rep.rule("R01.5", "max_document_id is written only by fetch_add (one site, add) and fetch_max (recovery); documents are created with PutMode::Create", floor=3)
    nadd = 0
    for f in prog.fns.values():
        if f.crate != "anda_db":
            continue
        for e in f.calls_named(anda.ATOMIC_WRITE_RX.pattern):
            if "max_document_id" not in anda.recv_fields(f, e):
                continue
            rep.saw(f, 1)
            op = e.callee.rsplit("::", 1)[1]
            outer = prog.outer_fn(f).path
            if op == "fetch_add":
                nadd += 1
                rep.ob("R01.5", "alloc-site|%s" % outer, outer == anda.COLL + "::add_impl", "ids are allocated (fetch_add) only in add_impl", e.where())
            else:
                rep.ob("R01.5", "alloc-write|%s|%s" % (outer, op), op == "fetch_max", "max_document_id may only move up (fetch_max), found %s" % op, e.where())
    rep.ob("R01.5", "single-alloc-site", nadd == 1, "exactly one fetch_add allocation site (found %d)" % nadd, anda.COLL)

    # ------------------------------------------------------------------ R01.6 who-may-write the commit objects
    rep.rule("R01.6", "writers of meta/ids/watermark/intent/document objects match the confirmed table (path operand resolved to constants/helpers); protocol steps run only from their place in the protocol", floor=20)
    TABLE = {
        ("create", "METADATA_PATH"): {"create"}, ("delete", "METADATA_PATH"): {"create"},
        ("put_bytes", "METADATA_PATH"): {"store_metadata", "store_metadata_unclaimed"},
        ("create", "IDS_PATH"): {"create"}, ("put", "IDS_PATH"): {"store_ids"},
        ("put", "ALLOCATION_WATERMARK_PATH"): {"ensure_allocation_watermark"},
        ("create", "fn:mutation_intent_path"): {"record_mutation_intent"},
        ("delete", "fn:mutation_intent_path"): {"clear_mutation_intents"},
        ("delete", "stale_mutation_intents"): {"clear_mutation_intents"},
        ("create", "fn:doc_path"): {"add_impl"}, ("delete", "fn:doc_path"): {"add_impl", "remove_impl"},
        ("put", "fn:doc_path"): {"update_impl"},
    }
    seen_rows = set()
    for f in prog.fns.values():
        if f.crate != "anda_db" or not prog.outer_fn(f).path.startswith(anda.COLL + "::"):
            continue
        for e in f.calls_named(r"^anda_db::storage::Storage::(create|put|put_bytes|delete)$"):
            rep.saw(f, 1)
            op = e.callee.rsplit("::", 1)[1]
            pcs = path_class(prog, f, e)
            if "fn:mutation_intent_path" in pcs:
                pc = "fn:mutation_intent_path"
            elif "fn:doc_path" in pcs:
                pc = "fn:doc_path"
            else:
                known = [p for p in pcs if p in ("METADATA_PATH", "IDS_PATH", "ALLOCATION_WATERMARK_PATH")]
                if known:
                    pc = known[0]
                elif "stale_mutation_intents" in f.slice_fields(e.args[1]) or _iter_of_field(f, e, "stale_mutation_intents"):
                    pc = "stale_mutation_intents"
                else:
                    pc = "|".join(sorted(pcs))
            outer = prog.outer_fn(f).path.rsplit("::", 1)[1]
            allowed = TABLE.get((op, pc))
            seen_rows.add((op, pc))
            rep.ob("R01.6", "writer|%s|%s|%s" % (op, pc, outer), allowed is not None and outer in allowed,
                   "Storage::%s on %s from %s is not in the confirmed writer table" % (op, pc, outer), e.where())
    # versioned update of an existing document: the version operand is not `None`
    f = body("update_impl")
    for e in docput(f):
        verop = e.args[3] if len(e.args) > 3 else None
        origins = f.slice_back_op(verop, through=lambda ev: False) if verop else []
        none_lit = any(o[0] == "agg" and o[1][2]["a"].get("v") == "None" for o in origins)
        some_lit = any(o[0] == "agg" and o[1][2]["a"].get("v") == "Some" for o in origins)
        rep.ob("R01.6", "versioned-update|update_impl", some_lit and not none_lit, "the document update must carry the fetched object version (Some(ver))", e.where())

    # who may run a protocol step: the steps are safe only at their place in the protocol (the intent log may be retired only by a
    # completed checkpoint - retiring it right after the in-memory replay loses acknowledged removes/updates if the process dies
    # again before the post-open flush; the replay may run only while nothing else is admitted, i.e. from open)
    STEP_CALLERS = {
        "clear_mutation_intents": {"flush_inner"},          # after indexes, metadata, ids and the checkpoint are durable (R01.1)
        "store_indexes": {"flush_inner"}, "store_ids": {"flush_inner"}, "store_metadata": {"flush_inner"},
        "replay_mutation_intents": {"open"}, "auto_repair_indexes": {"open"},
        "reconcile_mutation_intents": {"replay_mutation_intents"},
        "record_mutation_intent": {"update_impl", "remove_impl"},
    }
    for step, allowed in sorted(STEP_CALLERS.items()):
        sf = prog.fn(anda.COLL + "::" + step, body=False)
        callers = {}
        for g in prog.fns.values():
            for e in g.calls():
                if e.rid == sf.id or e.cid == sf.id:
                    callers.setdefault(prog.outer_fn(g).path.rsplit("::", 1)[1], e)
        extra = sorted(set(callers) - allowed)
        rep.ob("R01.6", "step-callers|%s" % step, bool(callers) and not extra,
               "%s is a step of the checkpoint / recovery protocol and may run only from %s; also called from %s" % (step, sorted(allowed), extra),
               callers[extra[0]].where() if extra else sf.file + ":%d" % sf.line)

    # index creation is re-runnable: the constructors of the three index wrappers write the index's own commit record(s) before
    # the collection registers the index; a crash in between must leave something the same create call can run over again,
    # so those writes overwrite (PutMode::Create would make every later open fail with AlreadyExists)
    nctor = 0
    for g in prog.fns.values():
        if g.crate != "anda_db" or "/index/" not in g.file:
            continue
        o_ = prog.outer_fn(g)
        if not re.search(r"^anda_db::index::\w+::\w+(::<\w+>)?::new$", o_.path):
            continue
        for e in g.calls_named(r"^anda_db::storage::Storage::(put_bytes|put|create)$"):
            modes = set()
            for a in e.args:
                for o in g.slice_back_op(a, through=lambda ev: False):
                    if o[0] == "agg" and (o[1][2]["a"].get("def") or "").endswith("PutMode"):
                        modes.add(o[1][2]["a"].get("v"))
            if e.name.endswith("::create"):
                modes.add("Create")
            nctor += 1
            rep.ob("R01.6", "index-ctor-overwrites|%s" % o_.path.replace("anda_db::index::", ""), modes == {"Overwrite"},
                   "an index constructor writes its own record with %s; it must overwrite so that index creation interrupted before the "
                   "collection registered the index can be repeated" % sorted(modes), e.where())
    if nctor < 4:
        rep.fault("R01.6: only %d storage writes found in the index wrapper constructors (expected 4)" % nctor)

    # ------------------------------------------------------------------ R01.7 recovery order in open
    rep.rule("R01.7", "Collection::open: load_indexes < user callback < replay_mutation_intents < auto_repair_indexes; repair window bounds", floor=6)
    f = body("open")
    rep.saw(f, len(f.events))
    li = f.calls_named(r"Collection::load_indexes$")
    cb = [e for e in f.calls() if re.search(r"AsyncFnOnce::async_call_once$|FnOnce::call_once$", e.callee or "") and
          (e.finfo or {}).get("self", "").strip() in ("F",)]
    rp = f.calls_named(r"Collection::replay_mutation_intents$")
    ar = f.calls_named(r"Collection::auto_repair_indexes$")
    seq = [("load_indexes", li), ("callback", cb), ("replay_mutation_intents", rp), ("auto_repair_indexes", ar)]
    for (na, a), (nb, b) in zip(seq, seq[1:]):
        ok = bool(a) and bool(b) and all(f.must_pass({e.block for e in a}, [x.block]) for x in b) and not f.can_reach({x.block for x in b}, {e.block for e in a})
        rep.ob("R01.7", "open-order|%s<%s" % (na, nb), ok, "%s must precede %s in Collection::open" % (na, nb), (b[0].where() if b else f.file))
    # every Ok return of open passes replay and repair
    okret = _ok_return_blocks(f)
    rep.ob("R01.7", "open-ok-needs-recovery", bool(okret) and bool(ar) and f.must_pass({e.block for e in ar}, okret),
           "Collection::open cannot return Ok without running the repair scan", f.file + ":%d" % f.line)
    g = body("auto_repair_indexes")
    rep.saw(g, len(g.events))
    fields = set()
    for e in g.calls():
        fields |= anda.recv_fields(g, e)
    chk = bool(g.calls_named(r"^anda_db::storage::Storage::stats$"))
    rep.ob("R01.7", "repair-window", chk and {"max_document_id", "durable_alloc_watermark"} <= fields,
           "the repair scan window is derived from the storage checkpoint, max_document_id and the durable allocation watermark", g.file + ":%d" % g.line)

    # a probe of the scan that fails with a storage-level error must fail the open (retrying the open is the right answer, as in
    # replay_mutation_intents): skipping the id lets the flush that ends the open move the checkpoint past a document that no later
    # open probes again.  Only "absent" (NotFound) and "present but undecodable" (Serialization) may continue the scan.
    probes = [e for e in g.calls_named(r"^anda_db::storage::Storage::(fetch|get)$")]
    heads = {e.block for e in g.calls_named(r"Iterator>?::next$")}
    rets = set(g.return_blocks())
    swallow = []
    for pr in probes:
        src = pr.poll_dest.l if pr.poll_dest is not None else pr.dest.l
        for (sb, place, adt, m, els) in g.variant_edges():
            if adt != "anda_db::error::DBError" or not g.can_reach([pr.block], [sb]):
                continue
            allowed = {t for v, t in m.items() if v in ("NotFound", "Serialization") and t != els}
            others = {t for v, t in m.items() if t not in allowed}
            for t in others:
                # can this edge come back to the loop head without returning?
                r = g.reachable_from([t], avoid=rets)
                if r & heads:
                    swallow.append(t)
    rep.ob("R01.7", "repair-scan-propagates-storage-errors|auto_repair_indexes", bool(probes) and bool(heads) and not swallow,
           "the repair scan logs and skips a probe that failed with an error other than NotFound / Serialization (a transient read failure) and raises "
           "max_document_id past the id: the flush that ends the open stores the checkpoint above a successfully added document, and no later open finds it",
           (g.file + ":%d" % g.term(swallow[0]).get("ln", g.line)) if swallow else g.file + ":%d" % g.line)

    # the window includes its upper end: max_document_id is itself an issued id and an add whose id equals the durable
    # watermark writes its document without publishing a new watermark, so a document can exist at exactly scan_max
    mx = g.calls_named(r"^core::cmp::Ord::max$")
    incl = g.calls_named(r"^core::ops::range::RangeInclusive::<Idx>::new$")
    verdict, site = None, g.file + ":%d" % g.line
    for e in incl:
        hi = _shallow_origin(g, e.args[1]) if len(e.args) > 1 else None
        if hi and hi[0] == "call" and hi[1] in mx:
            verdict, site = True, e.where()
    if verdict is None:
        for b in g.live_blocks():
            for st in g.stmts(b):
                if st[0] == "A" and st[2]["k"] == "agg" and (st[2]["a"].get("def") or "") == "core::ops::range::Range":
                    hi = _shallow_origin(g, st[2]["ops"][1])
                    if hi and hi[0] == "call" and hi[1] in mx:
                        verdict, site = False, g.file + ":%d" % st[3]          # exclusive end == scan_max: the last id is skipped
                    elif hi and hi[0] == "bin" and hi[1]["op"] in ("Add", "AddWithOverflow", "AddUnchecked"):
                        a0 = _shallow_origin(g, hi[1]["a"])
                        k1 = core.op_const(hi[1]["b"])
                        if a0 and a0[0] == "call" and a0[1] in mx and k1 is not None and str(k1.get("int")) not in ("0", "None"):
                            verdict, site = True, g.file + ":%d" % st[3]
    if verdict is None:
        rep.fault("R01.7: the id range scanned by auto_repair_indexes was not recognised (neither lo..=max(..) nor lo..max(..)+k)")
    else:
        rep.ob("R01.7", "repair-window-inclusive", verdict,
               "the repair scan must include its upper bound max(max_document_id, durable_alloc_watermark): a document can exist at exactly that id", site)

    # ------------------------------------------------------------------ R01.9 error discipline
    rep.rule("R01.9", "no storage-write Result is dropped in the checkpoint/intent functions; tolerated best-effort drops are the named sites", floor=10)
    TOLERATED = {("create", "delete"), ("cleanup_removed_index", "drop_prefix"),
                 ("create_btree_index", "drop_data"), ("create_bm25_index", "drop_data"), ("create_hnsw_index", "drop_data")}
    for f in prog.fns.values():
        if f.crate != "anda_db" or not prog.outer_fn(f).path.startswith(anda.COLL + "::"):
            continue
        for e in f.calls_named(WRITE_API.pattern, r"Collection::(store_\w+|flush_inner|record_mutation_intent|clear_mutation_intents|ensure_allocation_watermark)$"):
            if not _returns_result(prog, f, e):
                continue
            used = _result_used(f, e)
            outer = prog.outer_fn(f).path.rsplit("::", 1)[1]
            op = e.name.rsplit("::", 1)[1]
            tol = (outer, op) in TOLERATED
            rep.ob("R01.9", "result-used|%s|%s" % (outer, op), used or tol,
                   "the Result of %s is discarded in %s (not a tolerated best-effort site)" % (e.name, outer), e.where())
    # creation: the name is registered in memory before the collection and the database metadata are persisted.  If that
    # persistence fails the registration must be taken back - or the open path a retry takes must persist the database metadata -
    # otherwise the retry opens a collection db_meta.cbor does not list, acknowledges flushes into it, and no restart finds it.
    DB = "anda_db::database::AndaDB"
    rc = prog.fn(DB + "::register_created_collection")
    rep.saw(rc, len(rc.events))
    reg = [e for e in rc.calls() if re.search(r"::insert$", e.name or "") and "collections" in anda.recv_fields(rc, e)]
    pers = rc.calls_named(r"Collection::flush$", r"AndaDB::flush_metadata$")
    unreg = [e for e in rc.calls() if re.search(r"::(remove|shift_remove|swap_remove|retain)$", e.name or "") and "collections" in anda.recv_fields(rc, e)]
    undone = bool(pers)
    for pe in pers:
        oks, errs = rc.result_edges(pe)
        for t in errs:
            if not any(u.block in rc.reachable_from([t]) for u in unreg):
                undone = False
    oc = prog.fn(DB + "::open_collection_with_schema", body=False)
    fm = {f_.id for f_ in prog.fns.values() if f_.path == DB + "::flush_metadata"}
    reopens_persist = bool(prog.reach_set([oc.id]) & fm)
    if not reg or len(pers) < 2:
        raise CheckerFault("anchor missing: register_created_collection registry insert (%d) / persistence steps (%d)" % (len(reg), len(pers)))
    rep.ob("R01.7", "failed-creation-leaves-no-registration|register_created_collection", undone or reopens_persist,
           "the collection is registered in memory before collection.flush / flush_metadata, their error returns without taking the registration back, and "
           "open_collection_with_schema never persists the database metadata: after a failed first flush a retry opens the collection, flushes into it are "
           "acknowledged, and after a restart db_meta.cbor does not list it (the only remedy, delete_collection, destroys the acknowledged documents)",
           pers[0].where())

    # when the repair is the second kind (the open path persists the database metadata while a flag says the registry is not known
    # durable), the flag is part of the protocol: raised before the creation's own persistence steps, and raised again by
    # flush_metadata when the write it lowered the flag for is not known to have happened
    def _flag_events(g, ops):
        return [e for e in g.calls_named(r"Atomic::<bool>::(%s)$" % ops) if "registry_not_durable" in anda.recv_fields(g, e)]

    def _const_bool(e, idx):
        k = e.args[idx].get("k") if len(e.args) > idx and isinstance(e.args[idx], dict) else None
        return None if not k else {"0": False, "1": True}.get(str(k.get("int")))
    ocb = prog.async_body(oc) or oc
    gated = [e for h_ in [ocb] + prog.closures_of(ocb) for e in _flag_events(h_, "load|swap")]
    if not undone and gated:
        raised = [e for e in _flag_events(rc, "store|swap|fetch_or") if _const_bool(e, 1) is True]
        rep.ob("R01.7", "registry-flag-raised-before-persistence|register_created_collection",
               bool(raised) and all(any(rc.dominates(r_.block, pe.block) for r_ in raised) for pe in pers),
               "the open path persists the database metadata only while registry_not_durable is set, and register_created_collection does not set it before "
               "its own flushes: when they fail, the retry's open finds the flag down and the registration never becomes durable", pers[0].where())
        fmf = prog.fn(DB + "::flush_metadata")
        fmb = prog.async_body(fmf) or fmf
        rep.saw(fmb, len(fmb.events))
        lowered = [e for e in _flag_events(fmb, "store|swap|fetch_and") if _const_bool(e, 1) is False]
        again = [e for e in _flag_events(fmb, "store|swap|fetch_or") if _const_bool(e, 1) is True]
        ok_ = True
        if lowered:
            # raised again somewhere behind the lowering (the write sits in an inner async block; its failure edge is where the code raises)
            ok_ = any(fmb.can_reach([l_.block], [a_.block]) and a_.block != l_.block for l_ in lowered for a_ in again)
        rep.ob("R01.7", "registry-flag-restored-on-failed-write|flush_metadata", ok_,
               "flush_metadata lowers registry_not_durable (before its snapshot) and never raises it again behind the write: one failed metadata write on "
               "the retry's open path and the next open no longer persists the registration", (lowered[0].where() if lowered else fmb.file))

    # removing an index: the metadata object written by cleanup_removed_index must already not name the index whose files it
    # deletes next (the three siblings agree: unregister in the live metadata, then clean up)
    rep.rule("R01.11", "remove_{btree,bm25,hnsw}_index take the index out of the live metadata before cleanup_removed_index persists the metadata and "
             "deletes the index's objects: persisted the other way round, a crash between the deletion and the next flush leaves a registered index "
             "without objects and every reopen fails with NotFound", floor=3)
    n11 = 0
    for nm in ("remove_btree_index", "remove_bm25_index", "remove_hnsw_index"):
        f11 = prog.fn(anda.COLL + "::" + nm)
        b11 = prog.async_body(f11) or f11
        rep.saw(b11, len(b11.events))
        cl = b11.calls_named(r"Collection::cleanup_removed_index$")
        unreg = [e for e in b11.calls_named(r"(BTreeMap|HashMap|hash_map::HashMap)::<K, V(, [AS])*>::(remove|remove_entry|retain)$")
                 if "metadata" in anda.recv_fields(b11, e) and any(x.endswith("_indexes") for x in anda.recv_fields(b11, e))]
        if not cl:
            raise CheckerFault("anchor missing: cleanup_removed_index call in %s" % nm)
        n11 += 1
        rep.ob("R01.11", "unregistered-before-cleanup|%s" % nm,
               bool(unreg) and all(any(b11.dominates(u.block, c.block) and u.block != c.block for u in unreg) for c in cl),
               "%s calls cleanup_removed_index (metadata PUT, then deletion of the index's objects) before the index is taken out of the live metadata: the "
               "persisted metadata still names an index whose objects are gone - after a crash before the next flush Collection::open fails with NotFound "
               "on every reopen" % nm, cl[0].where())

    # the object-store wrappers under the collection: a lost acknowledgement of a commit must not leave the process unable to reopen
    from . import ostore as _os
    rep.rule("R01.10", "an error of a sidecar commit point leaves no stale cache entry behind (shared with C07 R07.7): with one the collection whose commit "
             "was applied-but-reported-failed cannot be reopened or written in the process", floor=2)
    _os.commit_error_forgets_cache_rules(rep, "R01.10", _os.load())
    return rep.finish(EXPLAIN)


def _iter_of_field(f, e, field):
    """True when the path operand is a loop variable iterating a collection cloned from `field`."""
    for l in range(len(f.locals)):
        pass
    # coarse: the function reads `field` and the operand's slice reaches an `Iterator::next` result
    origins = f.slice_back_op(e.args[1], through=lambda ev: ev.callee in core.TRANSPARENT)
    viaiter = any(o[0] == "call" and "Iterator" in (o[1].callee or "") for o in origins)
    if not viaiter:
        return False
    for ev in f.calls():
        if field in f.slice_fields(ev.args[0]) if ev.args else False:
            return True
    return False


def _err_targets(f, e):
    """Blocks entered when the Result of event e is an error: discriminant tests, `?`, and is_err()/is_ok() tests."""
    src = e.poll_dest.l if e.poll_dest is not None else e.dest.l
    out = list(f.result_edges(e)[1])
    der = f.derived_locals([src], call_filter=lambda t: t["f"].get("path") == core.TRY_BRANCH)
    from .c06_db import _bool_switch
    for c in f.calls_named(r"core::result::Result::<T, E>::is_(err|ok)$"):
        p = core.op_place(c.args[0])
        if p is None:
            continue
        refd = set()
        for (b, i, kind, data) in f.defs.get(p.l, []):
            if kind == "assign" and data[2]["k"] == "ref":
                refd.add(data[2]["p"]["l"])
        if refd & der:
            ft, tt = _bool_switch(f, c)
            t = tt if c.callee.endswith("is_err") else ft
            if t is not None:
                out.append(t)
    return out


def _shallow_origin(g, o, depth=0):
    """Definition of operand `o` followed through plain copies/moves only: ("call", Event) | ("bin", rvalue) | ("const", k) | None."""
    p = core.op_place(o)
    if p is None:
        k = core.op_const(o)
        return ("const", k) if k is not None else None
    if depth > 12:
        return None
    ds = g.defs.get(p.l, [])
    if len(ds) != 1:
        return None
    (b, i, kind, data) = ds[0]
    if kind == "call":
        g.events
        ev = g._ev_at.get(b)
        return ("call", ev) if ev is not None else None
    rv = data[2]
    if rv["k"] in ("use", "cast"):
        return _shallow_origin(g, rv["o"], depth + 1)
    if rv["k"] == "bin":
        return ("bin", rv)
    return None


def _ok_return_blocks(f):
    """Blocks that build the `Ok(..)` return value."""
    out = []
    for b in f.live_blocks():
        for st in f.stmts(b):
            if st[0] == "A" and st[1]["l"] == 0 and not st[1].get("p") and st[2]["k"] == "agg" and st[2]["a"].get("def") == "core::result::Result" and st[2]["a"].get("v") == "Ok":
                out.append(b)
    return out


def _returns_result(prog, f, e):
    t = f.locals[e.poll_dest.l] if e.poll_dest is not None else f.locals[e.dest.l]
    return "core::result::Result<" in t


def _result_used(f, e):
    """The result local is read by something other than a Drop: moved/copied/borrowed, matched or returned."""
    src = e.poll_dest.l if e.poll_dest is not None else e.dest.l
    # follow the Poll::Ready payload move for awaited events
    der = f.derived_locals([src], include_call_results=False)
    for b in f.live_blocks():
        t = f.term(b)
        if t["k"] == "switch":
            p = core.op_place(t["o"])
            if p is not None and p.l in der:
                # a switch on the Poll discriminant itself does not count
                si = f.switch_info(b)
                if si and si[1] and si[1]["adt"] == "core::task::poll::Poll":
                    continue
                return True
        if t["k"] == "call" and b != (e.poll_block if e.poll_block is not None else e.call_block):
            for a in t["args"]:
                p = core.op_place(a)
                if p is not None and p.l in der:
                    # drop(x) / mem::drop is still a discard
                    if (t["f"].get("path") or "").endswith("mem::drop"):
                        continue
                    return True
    return 0 in der
