"""C11 — full-text index retrieves exactly the matching documents, ranked stably.  (DESIGN §4 C11)"""
import re

from lib import core, valueflow
from lib.report import CheckerFault
from . import idxcommon as ix
from .c06_db import _bool_switch

EXPLAIN = (
    "Static analysis over rustc MIR of anda_db_tfs and anda_db::index::bm25: R11.1 mutation gate (as C10 R10.1) for insert/remove/purge_ids vs compact_buckets; R11.2 manifest commit "
    "protocol of flush_with and the wrapper, plus a sibling check that the ordered call skeleton of the B-tree and BM25 flush protocols agree; R11.3 ranking is a total order - every "
    "sort/select over scored documents uses compare_scored_docs, which orders by f32::total_cmp then id (no partial_cmp in the crate), and top-k truncates after select_nth and then sorts with "
    "the same comparator (prefix property); R11.4 scoring parameters reach the formula only through BM25Params::sanitized; R11.5 postings are filtered through the live-document map before "
    "scoring and the NOT-complement guard precedes query execution. Not decided: retrieval-set exactness, score values, counters over histories.")

BM = "anda_db_tfs::bm25::BM25Index::<T>"
BI = "anda_db_btree::btree::BTreeIndex::<PK, FV>"


def skeleton(prog, f, bucket_ty, meta_ty):
    """Ordered list of the protocol-relevant steps of a flush function (by first occurrence in dominator order)."""
    steps = []
    cls = [("dirty?", r"::has_dirty_buckets$"), ("pending?", r"::has_pending_metadata_flush$"), ("snapshot", r"::serialize_dirty_buckets$|::serialize_bucket$|::collect_dirty_buckets$"),
           ("metadata()", r"::metadata$"), ("publish-version", r"Atomic::<u64>::fetch_max$"), ("mark-saved", r"::mark_bucket(_snapshot)?_saved$"), ("update_metadata", r"::update_metadata$")]
    evs = []
    for name, rx in cls:
        for e in f.calls_named(rx):
            evs.append((e, name))
    for e in ix.callback_calls(f, bucket_ty):
        evs.append((e, "write-bucket"))
    for e in ix.callback_calls(f, meta_ty):
        evs.append((e, "commit-manifest"))
    # order by dominance (topological on "can reach")
    evs.sort(key=lambda x: len([1 for y in evs if f.can_reach([y[0].block], [x[0].block]) and not f.can_reach([x[0].block], [y[0].block])]))
    out = []
    for e, n in evs:
        if not out or out[-1] != n:
            out.append(n)
    # collapse the snapshot helpers
    res = []
    for n in out:
        if n not in res or n in ("update_metadata",):
            res.append(n)
    return res


def _root_local(f, o, depth=0):
    """Base local of `&mut x` / copies of it."""
    p = core.op_place(o)
    if p is None:
        return -1
    ds = f.defs.get(p.l, [])
    if depth < 8 and len(ds) == 1 and ds[0][2] == "assign" and ds[0][3][2]["k"] in ("ref", "rawptr"):
        return _root_local(f, {"c": ds[0][3][2]["p"]}, depth + 1)
    if depth < 8 and len(ds) == 1 and ds[0][2] == "assign" and ds[0][3][2]["k"] == "use":
        return _root_local(f, ds[0][3][2]["o"], depth + 1)
    return p.l


def _tie_broken_by_id(f, tc, idc):
    """`match score_order { Equal => a_id.cmp(&b_id), o => o }`: an id comparison on the Equal edge of the total_cmp result."""
    for t in tc:
        for (sb, adt, m) in f.outcome_edges(t.dest.l):
            if adt == "core::cmp::Ordering" and "Equal" in m:
                others = [x for k, x in m.items() if k != "Equal" and x != m["Equal"]]
                r = f.reachable_from([m["Equal"]], avoid=others)
                if any(i.block in r for i in idc):
                    return True
    return False


def run(rep, tier):
    prog = ix.load()
    rep.not_decided = "retrieval-set exactness, score values, counters after arbitrary histories, answers after loading interrupted flushes"
    rep.assumptions = ["rustc MIR", "f32::total_cmp is a total order", "DashMap shard locks", "callers exclude flush vs mutation (C05)"]

    rep.rule("R11.1", "mutation gate: shared in insert/remove/purge_ids, exclusive in compact_buckets, held at every mutable access; who-may-mutate table", floor=12)
    ix.mutation_gate_rules(rep, "R11.1", prog, BM, ["insert", "remove", "purge_ids"], "compact_buckets", ["postings", "buckets", "doc_tokens"], [],
                           {"load_buckets": "&mut self loader", "mark_bucket_saved": "flush bookkeeping; flush excluded from mutations by the collection's exclusive gate"})

    rep.rule("R11.2", "manifest commit protocol of flush_with and the wrapper; B-tree / BM25 flush skeletons agree", floor=10)
    f = prog.fn(BM + "::flush_with")
    ix.manifest_commit_rules(rep, "R11.2", prog, f, "BM25Index::flush_with", bucket_ty="F", meta_ty="M")
    cands = prog.fns_matching(r"^anda_db::index::bm25::BM25::flush_inner$")
    if not cands:
        raise CheckerFault("anchor missing: BM25::flush_inner")
    w = prog.async_body(cands[0]) or cands[0]
    ix.wrapper_flush_rules(rep, "R11.2", prog, w, "BM25::flush_inner", r"BM25Index::<T>::flush_with$")
    s1 = skeleton(prog, prog.fn(BI + "::flush_owned_with"), "F", "M")
    s2 = skeleton(prog, f, "F", "M")
    norm = lambda s: [x for x in s if x not in ("snapshot",)]
    rep.note("flush_skeleton_btree", s1)
    rep.note("flush_skeleton_bm25", s2)
    rep.ob("R11.2", "sibling-skeleton|BTreeIndex::flush_owned_with~BM25Index::flush_with", norm(s1) == norm(s2) and "commit-manifest" in s1,
           "the two manifest-commit implementations must perform the same protocol steps in the same order: btree %s vs bm25 %s" % (s1, s2), f.file + ":%d" % f.line)

    # a bucket is marked saved only up to the version its snapshot was taken at (never up to its live dirty_version)
    g = prog.fn(BM + "::mark_bucket_saved")
    rep.saw(g, len(g.events))
    sites = [(b, st) for b in g.live_blocks() for st in g.stmts(b) if st[0] == "A" and st[1].get("p") and isinstance(st[1]["p"][-1], dict)
             and st[1]["p"][-1].get("n") == "saved_version"]
    ok = bool(sites)
    for (b, st) in sites:
        ops = core._rvalue_operands(st[2])
        origins = [o for op in ops for o in g.slice_back_op(op, through=lambda ev: True)]
        flds = set()
        for op in ops:
            flds |= g.slice_fields(op, through=lambda ev: True)
        if not any(o[0] == "arg" and o[1] == 3 for o in origins) or "dirty_version" in flds:
            ok = False
    rep.ob("R11.2", "saved-version-from-snapshot|mark_bucket_saved", ok,
           "saved_version must be computed from the snapshot's version parameter (and the old saved_version), never from the live dirty_version: "
           "a mutation that crossed the write would be marked as persisted", g.file + ":%d" % g.line)

    # every token of an inserted document records its bucket for phase 2 (dirty mark + doc_ids), whether or not the posting
    # list changed: a re-insert that only meets stale identical entries must still get the bucket re-persisted, otherwise the
    # loader prunes the document's postings (doc_ids of the stored bucket does not list it)
    ins = prog.fn(BM + "::insert")
    rep.saw(ins, len(ins.events))
    pe = [e for e in ins.calls_named(r"dashmap::DashMap::<K, V, S>::entry$") if "postings" in ix.recv_fields(ins, e)]
    rec = [e for e in ins.calls_named(r"hash::map::HashMap::<K, V, S, A>::entry$")
           if "std::collections::hash::map::HashMap<u32," in ins.locals[(core.op_place(e.args[0]) or core.Place({"l": 0})).l].replace("&mut ", "")
           or ins.var_name(_root_local(ins, e.args[0])) == "buckets_to_update"]
    heads = [e.block for e in ins.calls_named(r"Iterator>?::next$")]
    ok = bool(pe) and bool(rec)
    for p_ in pe:
        loop = [h for h in heads if ins.dominates(h, p_.block) and ins.can_reach([p_.block], [h])]
        if not loop:
            ok = False
            continue
        if not ins.must_pass({r.block for r in rec}, loop, start=p_.block):
            ok = False
    rep.ob("R11.2", "token-bucket-recorded|insert", ok,
           "in BM25Index::insert every path from a token's posting entry to the next token passes the buckets_to_update.entry(..) record "
           "(a no-op push must still mark the bucket for re-persisting)", (pe[0].where() if pe else ins.file))

    nsz = ix.size_change_marks_dirty(rep, "R11.2", prog, "bm25")
    if nsz < 5:
        rep.fault("R11.2: only %d bucket size writes found in the BM25 mutators" % nsz)

    # a rejected insert (the id is already live) changes nothing: every write of index state in insert lies on the Vacant edge of the
    # doc_tokens entry test.  total_tokens in particular feeds the average document length of every score; bumping it for an insert
    # that is then refused skews all rankings until the next reload recomputes it.
    dte = [e for e in ins.calls_named(r"dashmap::DashMap::<K, V, S>::entry$") if "doc_tokens" in ix.recv_fields(ins, e)]
    vac = [m["Vacant"] for (sb, adt, m) in (ins.outcome_edges(dte[0].dest.l) if dte else []) if adt.endswith("mapref::entry::Entry") and "Vacant" in m]
    # ... or on the not-live edge of a `doc_tokens.contains_key(&id)` test (the sweep of leftovers of a dead id)
    for ck in [e for e in ins.calls_named(r"dashmap::DashMap::<K, V, S>::contains_key$") if "doc_tokens" in ix.recv_fields(ins, e)]:
        ft, tt = _bool_switch(ins, ck)
        if ft is not None:
            vac.append(ft)
    from .anda import ATOMIC_WRITE_RX
    writes = [e for e in ins.calls_named(ATOMIC_WRITE_RX.pattern)] + [e for (e, fld) in ix.state_mutations(ins, ["postings", "buckets"])]
    early = [e for e in writes if not any(ins.dominates(v, e.block) for v in vac)]
    # path-sensitive form of the not-live exemption (the test may be folded into a named flag): a write is fine if it cannot be
    # reached on the assumption that `doc_tokens.contains_key(&id)` answered true
    cks = [e for e in ins.calls_named(r"dashmap::DashMap::<K, V, S>::contains_key$") if "doc_tokens" in ix.recv_fields(ins, e)]
    if early and cks:
        live_reach = set()
        for ck in cks:
            live_reach |= valueflow.reachable_if_result(ins, ck, 1)
        early = [e for e in early if e.block in live_reach or not valueflow.must_pass_ps(ins, {ck.block for ck in cks}, [e.block])]
    rep.ob("R11.2", "no-effect-before-vacancy-test|insert", bool(dte) and bool(vac) and bool(writes) and not early,
           "BM25Index::insert changes index state (%s) on a path that has not yet established that the id is new; an insert refused with "
           "AlreadyExists would leave that change behind" % (sorted(ix.recv_fields(ins, early[0])) if early else ""),
           early[0].where() if early else ins.file + ":%d" % ins.line)

    # ------------------------------------------------------------------ R11.6 an id that becomes live again carries no old entries
    rep.rule("R11.6", "remove() finds a document's entries through the tokens of the text it is given; entries under other tokens (non-original text) can "
                      "only be found by a pass over every posting list, so insert or remove must be able to reach one before the id is live again", floor=1)
    sweepers = set()
    for g in prog.fns.values():
        if g.crate != "anda_db_tfs":
            continue
        if any("postings" in ix.recv_fields(g, e) for e in g.calls_named(r"dashmap::DashMap::<K, V, S>::(iter_mut|retain|alter_all)$")):
            sweepers.add(g.id)
    reach = prog.reach_set([ins.id, prog.fn(BM + "::remove").id])
    rep.ob("R11.6", "reinsert-reaches-full-sweep|insert+remove", bool(sweepers & reach),
           "neither BM25Index::insert nor BM25Index::remove can reach a traversal of all posting lists: after remove(id, non-original text) the entries "
           "filed under the other tokens survive, and a later insert(id, ..) makes the document answer term queries for words it does not contain",
           ins.file + ":%d" % ins.line)

    rep.rule("R11.3", "ranking is a total order: all sorts/selects over scored docs use compare_scored_docs (total_cmp + id); truncate after select_nth, then sort", floor=5)
    cmpf = prog.fn(BM + "::compare_scored_docs")
    rep.saw(cmpf, len(cmpf.events))
    tc = cmpf.calls_named(r"f32>::total_cmp$|<impl f32>::total_cmp$|f32::total_cmp$")
    idc = cmpf.calls_named(r"Ord::cmp$|<impl core::cmp::Ord for u64>::cmp$")
    thenw = cmpf.calls_named(r"Ordering::then_with$|Ordering::then$")
    rep.ob("R11.3", "comparator-total|compare_scored_docs", bool(tc) and (bool(idc) or any(k.calls_named(r"::cmp$") for k in prog.closures_of(cmpf))) and (bool(thenw) or _tie_broken_by_id(cmpf, tc, idc)),
           "compare_scored_docs orders by f32::total_cmp and breaks ties by document id", cmpf.file + ":%d" % cmpf.line)
    npart = []
    nsorts = 0
    for g in prog.fns.values():
        if g.crate != "anda_db_tfs":
            continue
        for e in g.calls_named(r"PartialOrd::partial_cmp$|::partial_cmp$"):
            st = (e.finfo or {}).get("self", "")
            if "f32" in st or "f64" in st:
                npart.append(e)
        for e in g.calls_named(r"slice::<impl \[T\]>::(sort_by|sort_unstable_by|select_nth_unstable_by)$"):
            ty = g.locals[core.op_place(e.args[0]).l] if core.op_place(e.args[0]) is not None else ""
            if "(u64, f32)" not in ty:
                continue
            nsorts += 1
            refs = [o for a in e.args for o in g.slice_back_op(a) if o[0] == "const" and "fn" in o[1]]
            uses = any(o[1]["fn"].get("path", "").endswith("compare_scored_docs") for o in refs)
            rep.ob("R11.3", "sort-uses-comparator|%s|%s" % (prog.outer_fn(g).path.rsplit("::", 1)[1], e.name.rsplit("::", 1)[1]), uses,
                   "sorting scored documents must use compare_scored_docs", e.where())
    rep.ob("R11.3", "no-partial-cmp", not npart, "no float partial_cmp in the crate's ranking code (not a total order once NaN appears)", (npart[0].where() if npart else "rs/anda_db_tfs"))
    tk = prog.fn(BM + "::top_k_results")
    sel = tk.calls_named(r"select_nth_unstable_by$")
    tr = tk.calls_named(r"Vec::<T, A>::truncate$")
    srt = tk.calls_named(r"sort_unstable_by$|sort_by$")
    ok = bool(sel) and bool(tr) and bool(srt) and tk.dominates(sel[0].block, tr[0].block) and not tk.can_reach([srt[0].block], [tr[0].block]) and not (tk.reachable_from([tr[0].block], avoid=[srt[0].block], include_start=False) & set(tk.return_blocks()))
    rep.ob("R11.3", "topk-prefix|top_k_results", ok, "top-k = select_nth -> truncate -> sort with the same comparator (top-k is a prefix of top-(k+1))", tk.file + ":%d" % tk.line)

    # the score of a document is a sum of f32 contributions, one per query token: f32 addition does not commute in the last bit, so the
    # order in which the tokens are visited has to be fixed.  collect_tokens returns a std HashMap (fresh RandomState per call):
    # iterating it directly makes the same search over a static index rank differently from call to call (and top-k no prefix of top-k+1)
    st_ = prog.fn(BM + "::score_term")
    rep.saw(st_, len(st_.events))
    rnd_iter = [e for e in st_.calls_named(r"hash::map::HashMap::<K, V, S>::(keys|iter|values)$|HashMap::<K, V, S(, A)?>::(keys|iter|into_iter)$")
                if "RandomState" in ((e.finfo or {}).get("substs", "") + st_.locals[core.op_place(e.args[0]).l if e.args and core.op_place(e.args[0]) is not None else 0])]
    rnd_iter += [e for e in st_.calls_named(r"IntoIterator>::into_iter$") if e.args and core.op_place(e.args[0]) is not None
                 and "RandomState" in st_.locals[core.op_place(e.args[0]).l]]
    sorts_ = st_.calls_named(r"slice::<impl \[T\]>::sort(_unstable)?(_by|_by_key)?$")
    rep.ob("R11.3", "token-order-fixed|score_term", not rnd_iter or bool(sorts_),
           "score_term walks the query tokens in the iteration order of a std HashMap with a per-call random state and sums the f32 contributions in that order: "
           "400 identical multi-word searches over a static index gave four different ranked lists, and top-1 disagreed with the head of top-2 in 109 of 400 rounds",
           (rnd_iter[0].where() if rnd_iter else st_.file))

    # sibling agreement (remove / sweep): whether a token is unlisted from its bucket is decided while the bucket guard is held - an
    # insert that re-creates the posting lists the token under the same guard, so deciding before the guard can end in a posting no
    # bucket lists, which serialize_bucket then drops (the term is lost after flush + reload)
    n_unlist = 0
    for g in prog.fns.values():
        if g.crate != "anda_db_tfs" or "/bm25.rs" not in g.file:
            continue
        for u in g.calls_named(r"swap_remove_if$"):
            if "tokens" not in g.slice_fields(u.args[0]):
                continue
            guards = [e for e in g.calls_named(r"dashmap::DashMap::<K, V, S>::get_mut$") if "buckets" in g.slice_fields(e.args[0]) and
                      (g.dominates(e.block, u.block))]
            looks = [e for e in g.calls_named(r"dashmap::DashMap::<K, V, S>::(get|contains_key)$") if "postings" in g.slice_fields(e.args[0]) and
                     g.dominates(e.block, u.block)]
            if not guards or not looks:
                continue        # an unlisting that consults no posting (compaction moves whole buckets under the exclusive gate)
            n_unlist += 1
            # the nearest guard and the nearest lookup before the unlisting
            gd = max(guards, key=lambda e: sum(1 for x in guards if g.dominates(x.block, e.block)))
            lk = max(looks, key=lambda e: sum(1 for x in looks if g.dominates(x.block, e.block)))
            rep.ob("R11.1", "unlist-decided-under-bucket-guard|%s" % prog.outer_fn(g).path.rsplit("::", 1)[1], g.dominates(gd.block, lk.block) and gd.block != lk.block,
                   "the posting is looked up before the bucket guard is taken and the token is unlisted afterwards: a concurrent insert that re-creates the posting "
                   "in between finds the token still listed, the sweep then unlists it, and the term is lost after flush + reload (one term per round in 7-8 of 8 rounds)",
                   u.where())
    if n_unlist < 2:
        raise CheckerFault("anchor missing: token unlisting sites that consult the postings under a bucket guard (found %d)" % n_unlist)

    rep.rule("R11.4", "k1 / b reach the scoring formula only through BM25Params::sanitized", floor=2)
    readers = set()
    for g in prog.fns.values():
        if g.crate != "anda_db_tfs":
            continue
        for b in g.live_blocks():
            for st in g.stmts(b):
                if st[0] != "A":
                    continue
                places = [o.get("c") or o.get("m") for o in core._rvalue_operands(st[2])]
                if st[2]["k"] in ("ref", "cfd"):
                    places.append(st[2]["p"])
                for pl in places:
                    if not pl:
                        continue
                    base_ty = g.locals[pl["l"]]
                    names = [x.get("n") for x in (pl.get("p") or []) if isinstance(x, dict)]
                    if ("k1" in names or "b" in names) and "BM25Params" in base_ty:
                        readers.add(prog.outer_fn(g).path)
    allowed = {"anda_db_tfs::bm25::BM25Params::sanitized"}
    derive = {r for r in readers if re.search(r"as (core::clone::Clone|core::fmt::Debug|serde|core::cmp::PartialEq)|_::<impl serde|serialize|deserialize", r)}
    rep.ob("R11.4", "params-only-via-sanitized", (readers - derive) <= allowed and "anda_db_tfs::bm25::BM25Params::sanitized" in readers,
           "fields k1/b of BM25Params are read outside sanitized(): %s" % sorted((readers - derive) - allowed), "rs/anda_db_tfs/src/bm25.rs")
    st = prog.fn(BM + "::score_term")
    rep.ob("R11.4", "score-term-sanitizes", bool(st.calls_named(r"BM25Params::sanitized$")), "score_term obtains (k1, b) from sanitized()", st.file + ":%d" % st.line)

    rep.rule("R11.5", "postings filtered through doc_tokens before scoring; NOT-complement guard precedes execute_query", floor=2)
    rep.saw(st, len(st.events))
    live = [e for e in st.calls_named(r"dashmap::DashMap::<K, V, S>::get$") if "doc_tokens" in ix.recv_fields(st, e)]
    ins = st.calls_named(r"HashMap::<K, V, S, A>::insert$|HashMap::<K, V, S>::insert$")
    ok = bool(live) and bool(ins)
    if ok:
        some = [m.get("Some") for (sb, place, adt, m, els) in st.variant_edges() if adt == "core::option::Option" and place.l in st.derived_locals([live[0].dest.l], include_call_results=False)]
        ok = bool(some) and any(s is not None and st.dominates(s, i.block) for s in some for i in ins)
    rep.ob("R11.5", "live-filter|score_term", ok, "a posting contributes to the score only on the Some edge of doc_tokens.get(doc_id)", st.file + ":%d" % st.line)
    ts = prog.fn(BM + "::try_search_advanced")
    rep.saw(ts, len(ts.events))
    g1 = ts.calls_named(r"QueryType::may_materialize_not_complement$")
    ex = ts.calls_named(r"::execute_query$")
    ok = bool(g1) and bool(ex) and ts.must_pass([g1[0].block], [e.block for e in ex])
    rep.ob("R11.5", "not-complement-guard|try_search_advanced", ok, "may_materialize_not_complement is evaluated before execute_query", ts.file + ":%d" % ts.line)
    return rep.finish(EXPLAIN)


def _nonempty_returns(f, srt):
    """Return blocks reachable from the sort (the non-trivial result path)."""
    return [b for b in f.return_blocks() if b in f.reachable_from([srt[0].block])]
