"""C18 — reading AS OF a past point returns what was current then.  (DESIGN §4 C18)"""
import re

from lib import core, valueflow
from lib.report import CheckerFault
from . import nx

EXPLAIN = (
    "Static analysis over rustc MIR of anda_cognitive_nexus: R18.1 in the transactional writer every element row put is followed on its success path by the version-log append for the same "
    "row before the function can return (one pair per element kind), and element rows are written by no other function reachable from a KIP command; R18.2 the version log is append-only: "
    "rows of the element_versions collection are removed only by Store::remove_versions / purge_versions, remove_versions is reachable only from commit under the staged purges (filled only by "
    "stage_purge), and no update primitive is ever applied to that collection; R18.3 the read context routes a bound coordinate to element_at and both routes through the admission check. "
    "R18.4 (payload immutability of Assertion/Evidence) is decided under C16 R16.4. "
    "Not decided: equality of live and historical query results - two evaluators agreeing is a behavioural relation.")

TX = nx.N + "::tx::Transaction"


def run(rep, tier):
    prog = nx.load()
    rep.not_decided = "equality of historical and then-live query results (same elements, fields, projected beliefs), schema-environment resolution at the coordinate"
    rep.assumptions = ["rustc MIR", "anda_db Collection add/update/remove are the storage primitives", "the version log is the element_versions collection"]

    rep.rule("R18.1", "every element row put in the transactional writer is followed by record_version before returning; element rows have no other writer on the KIP path", floor=7)
    wr = prog.fn(TX + "::write")
    rep.saw(wr, len(wr.events))
    puts = wr.calls_named(r"Store>?::put$")
    recs = wr.calls_named(r"Store>?::record_version$")
    rets = set(wr.return_blocks())
    kinds = [v["name"] for v in prog.adt(nx.N + "::store::Element")["variants"]]
    rep.ob("R18.1", "one-pair-per-kind|Transaction::write", len(puts) == len(kinds) and len(recs) == len(kinds), "%d element kinds, %d puts, %d version appends" % (len(kinds), len(puts), len(recs)), wr.file + ":%d" % wr.line)
    for i, p in enumerate(sorted(puts, key=lambda e: e.line * 10000 + e.block)):
        oks, errs = wr.result_edges(p)
        # the row argument of the following record_version is the row that was put
        ok = bool(oks) and not any(wr.reachable_from([t], avoid=[r.block for r in recs]) & rets for t in oks)
        same = False
        for r in recs:
            if any(wr.dominates(t, r.block) for t in oks):
                prow = _row_local(wr, p.args[1])
                rrow = _row_local(wr, r.args[5]) if len(r.args) > 5 else None
                if prow is not None and prow == rrow:
                    same = True
        kind = _arm_of(wr, p, nx.N + "::store::Element")
        rep.ob("R18.1", "put-then-version|%s" % (kind or i), ok and same, "a successful put of an element row must be followed by record_version of the same row before the writer returns", p.where())
    reach_kml = prog.reach_set([prog.fn(nx.N + "::kml::execute", body=False).id])
    for name, allowed in (("put", {"tx::Transaction::write"}), ("put_row", {"tx::<impl store::Store>::put"}), ("insert", {"tx::Transaction::insert_shell"})):
        m = nx.store_method(prog, name)
        callers = {nx.outer_name(prog, f) for (f, e) in nx.callers_of(prog, {m.id}) if prog.outer_fn(f).id in reach_kml or name != "insert"}
        rep.ob("R18.1", "who-may-call|Store::%s" % name, bool(callers) and callers <= allowed, "Store::%s is called from %s (allowed %s)" % (name, sorted(callers), sorted(allowed)), m.file + ":%d" % m.line)

    rep.rule("R18.2", "version log append-only: removers are remove_versions/purge_versions only; remove_versions only from commit under staged purges; no update on the log", floor=5)
    touching = {}
    for f in prog.fns.values():
        if f.crate != nx.N:
            continue
        for e in f.calls_named(r"^anda_db::collection::Collection::(add|add_from|update|remove|save_extension\w*)$"):
            org = {o[1].name.rsplit("::", 1)[1] for o in f.slice_back_op(e.args[0]) if o[0] == "call"}
            if "element_versions" in org:
                touching.setdefault(e.callee.rsplit("::", 1)[1], set()).add(nx.outer_name(prog, f))
    rep.note("version_log_primitives", {k: sorted(v) for k, v in touching.items()})
    rep.ob("R18.2", "appenders", touching.get("add_from", set()) == {"store::history::<impl store::Store>::record_version"} and not touching.get("add"),
           "rows enter the version log only through record_version (found %s)" % sorted(touching.get("add_from", set()) | touching.get("add", set())), "rs/anda_cognitive_nexus/src/store/history.rs")
    rep.ob("R18.2", "removers", touching.get("remove", set()) <= {"store::history::<impl store::Store>::remove_versions"} and bool(touching.get("remove")),
           "rows leave the version log only through remove_versions (found %s)" % sorted(touching.get("remove", set())), "rs/anda_cognitive_nexus/src/store/history.rs")
    rep.ob("R18.2", "never-updated", not touching.get("update"), "no update primitive is applied to the version log (found %s)" % sorted(touching.get("update", set())), "rs/anda_cognitive_nexus/src/store/history.rs")
    rv = nx.store_method(prog, "remove_versions")
    callers = {nx.outer_name(prog, f) for (f, e) in nx.callers_of(prog, {rv.id})}
    rep.ob("R18.2", "who-may-call|remove_versions", callers <= {"tx::Transaction::commit", "store::history::<impl store::Store>::purge_versions"} and "tx::Transaction::commit" in callers,
           "remove_versions callers: %s" % sorted(callers), rv.file + ":%d" % rv.line)
    pv = nx.store_method(prog, "purge_versions")
    pcallers = {nx.outer_name(prog, f) for (f, e) in nx.callers_of(prog, {pv.id})}
    rep.ob("R18.2", "who-may-call|purge_versions", not (pcallers & {nx.outer_name(prog, prog.fns[i]) for i in reach_kml if i in prog.fns}) or pcallers <= {"governance::purge::erase"},
           "purge_versions is not reachable from a KIP mutation except through the purge tooling (callers %s)" % sorted(pcallers), pv.file + ":%d" % pv.line)
    cm = prog.fn(TX + "::commit")
    rvc = cm.calls_named(r"Store>?::remove_versions$")
    ok = False
    for e in rvc:
        flds = cm.slice_fields(e.args[1], through=lambda ev: ev.callee in core.TRANSPARENT or ev.callee.endswith("BTreeMap::<K, V, A>::get") or "Deref" in ev.callee)
        org = {o[1].name.rsplit("::", 1)[1] for o in cm.slice_back_op(e.args[1], through=lambda ev: ev.callee in core.TRANSPARENT or "Deref" in (ev.callee or "")) if o[0] == "call"}
        ok = "purges" in flds or "get" in org
    rep.ob("R18.2", "commit-removes-only-staged-purges", ok and bool(rvc), "commit destroys exactly the version ids recorded in self.purges", (rvc[0].where() if rvc else cm.file))
    pw = set()
    for f in prog.fns.values():
        if f.crate != nx.N or not prog.outer_fn(f).path.startswith(TX + "::"):
            continue
        for e in f.calls_named(r"BTreeMap::<K, V, A>::(insert|entry|extend|append)$"):
            if "purges" in f.slice_fields(e.args[0]):
                pw.add(nx.outer_name(prog, f))
    rep.ob("R18.2", "purges-filled-by-stage_purge", pw == {"tx::Transaction::stage_purge"}, "Transaction.purges is filled only by stage_purge (found %s)" % sorted(pw), TX)

    rep.rule("R18.3", "read context: a bound coordinate routes to element_at; both routes pass admit before an element is returned or cached", floor=3)
    read_context_rules(rep, "R18.3", prog)
    # ------------------------------------------------------------------ R18.4 pushed-down activity filter re-applied at a coordinate
    rep.rule("R18.4", "a pattern matcher that narrows its candidates by state = active through the (present-time) index re-checks activity against the "
                      "loaded historical row before it uses the row, on every path taken at a coordinate", floor=4)
    from lib import valueflow

    def cstrs(f, o):
        return {x[1].get("str") for x in f.slice_back_op(o) if x[0] == "const" and x[1].get("str") is not None}

    def state_checks(f):
        out = []
        for e in f.calls():
            nm = e.name or ""
            if re.search(r"PartialEq.*::(eq|ne)$", nm) and len(e.args) >= 2:
                fl = f.slice_fields(e.args[0]) | f.slice_fields(e.args[1])
                if "state" in fl and "active" in (cstrs(f, e.args[0]) | cstrs(f, e.args[1])):
                    out.append(e)
            elif re.search(r"::is_active$", nm):
                out.append(e)
        return out
    SCOPE = ("/kql/", "/projection/", "/meta/")
    helpers = {f.id for f in prog.fns.values() if any(x in f.file for x in SCOPE) and f.kind != "Closure" and state_checks(f)}
    ninst = 0
    for f in prog.fns.values():
        if not any(x in f.file for x in SCOPE):
            continue
        push = [e for e in f.calls_named(r"eq_field$") if e.args and "state" in cstrs(f, e.args[0])]
        hist = f.calls_named(r"::is_historical$")
        loads = f.calls_named(r"Context.*::load$")
        if not (push and hist and loads):
            continue
        ninst += 1
        rep.saw(f, len(f.events))
        name = prog.outer_fn(f).path.rsplit("::", 1)[1]
        checks = state_checks(f) + [e for e in f.calls() if e.cid in helpers or e.rid in helpers]
        uses = [e.block for e in f.calls_named(r"alloc::vec::Vec::<T, A>::push$") if any(f.can_reach([l_.block], [e.block]) for l_ in loads)]
        hb = {h.block: h.dest.l for h in hist if not h.dest.p}
        try:
            at = valueflow.analyse(f, load_blocks=hb, domain=(0, 1), marks={e.block for e in push}, avoid={c.block for c in checks})
            bad = []
            for ub in uses:
                for envf in at.get(ub, ()):
                    env = dict(envf)
                    if env.get(("mark",)) == 1 and any(env.get(("ghost", b)) == 1 for b in hb):
                        bad.append(ub)
                        break
        except RuntimeError:
            bad = [ub for ub in uses if ub in f.reachable_from([0], avoid={c.block for c in checks})]
        rep.ob("R18.4", "historical-recheck-of-activity|%s" % name, bool(uses) and bool(checks) and not bad,
               "at a coordinate the candidates come from the version log, not from the state index: a row can reach the result of %s without "
               "its state being compared with \"active\" (or is_active / a matcher that does so)" % name,
               (f.file + ":%d" % f.term(bad[0]).get("ln", f.line)) if bad else f.file + ":%d" % f.line)
    if ninst < 4:
        rep.fault("R18.4: only %d matcher(s) with a pushed-down state filter found" % ninst)
    evaluator_agreement_rules(rep, prog)
    return rep.finish(EXPLAIN)


def _sconst(k_):
    """string value of a constant operand descriptor, else None"""
    if not isinstance(k_, dict):
        return None
    if k_.get("str") is not None:
        return k_["str"]
    if k_.get("tyconst"):
        return k_["tyconst"].strip('"')
    return None


def _str_table(f):
    """(kind, key) -> value of a `match (kind, key) { (K, "k") => "v", .. }` function: extracted from the string comparisons and
    the constant each comparison's true edge produces.  kind is None for `(_, "k")` arms."""
    from .c06_db import _bool_switch
    out = {}
    kind_of = {}
    for (sb, place, adt, m, els) in f.variant_edges():
        if adt and adt.endswith("::ElementKind"):
            for v, tb in m.items():
                if tb != els:
                    for b in f.reachable_from([tb], avoid={sb}):
                        kind_of.setdefault(b, set()).add(v)
    for e in f.calls_named(r"PartialEq.*::eq$"):
        key = None
        for a in e.args:
            k_ = a.get("k") if isinstance(a, dict) else None
            if _sconst(k_) is not None:
                key = _sconst(k_)
        if key is None:
            continue
        ft, tt = _bool_switch(f, e)
        if tt is None:
            continue
        # the constant(s) produced on the true edge before any other comparison
        stop = {x.block for x in f.calls_named(r"PartialEq.*::eq$") if x.block != e.block}
        vals = set()
        for b in f.reachable_from([tt], avoid=stop):
            for st in f.stmts(b):
                if st[0] == "A":
                    for o in core._rvalue_operands(st[2]):
                        k2 = (o.get("k") or {}) if isinstance(o, dict) else {}
                        if _sconst(k2) is not None:
                            vals.add(_sconst(k2))
            t = f.term(b)
            if t["k"] == "call":
                for o in t["args"]:
                    k2 = (o.get("k") or {}) if isinstance(o, dict) else {}
                    if _sconst(k2) is not None:
                        vals.add(_sconst(k2))
        kinds = kind_of.get(e.block) or {None}
        if len(kinds) >= 4:
            kinds = {None}
        for kd in kinds:
            out[(kd, key)] = sorted(vals)
    return out


def evaluator_agreement_rules(rep, prog):
    """R18.5: the historical evaluator is a second implementation of the pattern matcher.  What can be decided structurally is
    that both read the same tables and apply the same constraints - not that their answers are equal."""
    rep.rule("R18.5", "the present-time and the at-a-coordinate evaluators agree structurally: index columns exist, an id in the matcher does not drop the "
             "index-backed constraints, only index-backed keys are normalised to text, the engine state is decided somewhere, candidates come in id order", floor=5)
    M = nx.N + "::kql::matching"
    co = prog.fn(M + "::column_of")
    vk = prog.fn(M + "::view_key")
    rep.saw(co, len(co.events))
    rep.saw(vk, len(vk.events))
    ctab = _str_table(co)
    vtab = _str_table(vk)
    if len(ctab) < 12 or len(vtab) < 5:
        raise CheckerFault("anchor missing: column_of / view_key tables (%d / %d entries)" % (len(ctab), len(vtab)))
    rep.note("column_of", {"%s.%s" % (k or "*", key): v for (k, key), v in sorted(ctab.items(), key=str)})
    rep.note("view_key", {"%s.%s" % (k or "*", key): v for (k, key), v in sorted(vtab.items(), key=str)})

    # (1) every column the matcher pushes into an index filter has an index on that kind's collection
    created = {}
    shared = set()
    opaque = set()
    for f in prog.fns.values():
        if not f.path.startswith(nx.N + "::store::") or f.kind == "Closure":
            continue
        body = prog.async_body(f) or f
        cols = set()
        for e in body.calls_named(r"Collection::create_btree_index(_nx)?$"):
            before_ = len(cols)
            for o in body.slice_back_op(e.args[1]) if len(e.args) > 1 else []:
                if o[0] == "agg":
                    for op in o[1][2].get("ops", []):
                        if _sconst((op.get("k") or {}) if isinstance(op, dict) else {}) is not None:
                            cols.add(_sconst(op["k"]))
                elif o[0] == "const" and _sconst(o[1]) is not None:
                    cols.add(_sconst(o[1]))
            if len(cols) == before_:
                opaque.add(f.path.rsplit("::", 1)[1])       # the column comes from a table the facts do not expose (a loop over a const array)
        if cols or f.path.rsplit("::", 1)[1] in opaque:
            created[f.path.rsplit("::", 1)[1]] = cols
    init_of = {}
    opaque_kinds = set()
    for name, cols in created.items():
        low = name.lower()
        for kd, frag in (("Concept", "concept"), ("Proposition", "proposition"), ("Assertion", "assertion"), ("Evidence", "evidence"), ("Activity", "activit")):
            if frag in low:
                init_of[kd] = cols
                if name in opaque:
                    opaque_kinds.add(kd)
        if "envelope" in low:
            shared |= cols
    rep.note("indexes_created", {k: sorted(v) for k, v in created.items()})
    if len(init_of) < 5 or (not shared and "init_envelope" not in opaque):
        raise CheckerFault("anchor missing: per-kind index creation functions (%s) / shared envelope indexes" % sorted(created))
    for (kd, key), cols in sorted(ctab.items(), key=str):
        for col in cols:
            if col == "__id":
                continue
            for k2 in ([kd] if kd else sorted(init_of)):
                have = init_of[k2] | shared
                if k2 in opaque_kinds and col not in have:
                    rep.ob("R18.5", "index-exists|%s.%s->%s" % (k2, key, col), True,
                           "not decided: the index columns of this kind are created from a table (a loop over a constant array) the facts do not expose", co.file)
                    continue
                rep.ob("R18.5", "index-exists|%s.%s->%s" % (k2, key, col), col in have,
                       "column_of pushes `{%s: ..}` on %s into a filter on column `%s`, and no function under store:: creates a B-tree index `%s` for that "
                       "collection: the present answers an index error where AS OF answers rows" % (key, k2, col, col), co.file + ":%d" % co.line)

    me = prog.fn(M + "::<impl Context>::match_element") if prog.has_fn(M + "::<impl Context>::match_element") else None
    if me is None:
        c_ = [f for f in prog.fns.values() if f.path.endswith("::match_element") and f.path.startswith(nx.N + "::kql::")]
        if not c_:
            raise CheckerFault("anchor missing: match_element")
        me = prog.async_body(c_[0]) or c_[0]
    rep.saw(me, len(me.events))
    mt = me.calls_named(r"::matcher_text$")
    cand = me.calls_named(r"Context.*::candidates$")
    loads = me.calls_named(r"Context.*::load$")
    cof = me.calls_named(r"matching::column_of$")
    if not mt or not cand or not loads or not cof:
        raise CheckerFault("anchor missing in match_element: matcher_text %d, candidates %d, load %d, column_of %d" % (len(mt), len(cand), len(loads), len(cof)))

    # (2) a value constraint pushed into the index filter is only ever decided by the index: once one was pushed, the
    #     candidate loop must not be reachable without the index query (naming an id must not bypass it)
    # the pushes of a *matcher value* into the index filter: receiver is a Vec of anda_db filters, and the pushed text was
    # produced by matcher_text (the default `state = active` filter is not a matcher value)
    def _recv_ty(e):
        pl = core.op_place(e.args[0]) if e.args else None
        return me.locals[pl.l] if pl is not None else ""
    pushes = [e for e in me.calls_named(r"Vec::<T, A>::push$|Vec::<T>::push$")
              if "anda_db::query::Filter" in _recv_ty(e) and any(me.dominates(m_.block, e.block) for m_ in mt)]
    rep.note("index_pushes", [e.where() for e in pushes])
    if not pushes:
        raise CheckerFault("anchor missing: the push of a matcher_text value into the index filters")
    # the obligation concerns the present-time evaluation: at a coordinate nothing is decided by an index (every constraint goes
    # to the view), so the exploration starts after is_historical() answered false
    ih = me.calls_named(r"Context.*::is_historical$")
    if len(ih) != 1 or me.term(ih[0].block)["k"] != "call" or me.term(ih[0].block).get("t") is None:
        raise CheckerFault("anchor missing: the single is_historical() test of match_element")
    t_ih = me.term(ih[0].block)
    try:
        at = valueflow.analyse(me, avoid={b for c in cand for b in (c.block, c.call_block)}, marks={e.block for e in pushes},
                               start=t_ih["t"], init={t_ih["d"]["l"]: 0})
        if not any(at.get(e.block) for e in pushes):
            raise CheckerFault("match_element: the index push is not reached by the path exploration (abstraction too coarse)")
        leak = any((("mark",), 1) in envf for l in loads for envf in at.get(l.block, ()) | at.get(l.call_block, set()))
    except RuntimeError:
        leak = None
    rep.ob("R18.5", "id-pattern-keeps-index-constraints|match_element", leak is False,
           "after a matcher value was pushed into the index filter the candidate loop is reachable without the index query (the `id` shortcut): "
           "`{id: \"C-1\", name: \"Mallory\"}` answers C-1 now and nothing AS OF the same coordinate" if leak else "path exploration exceeded its state budget",
           pushes[0].where())

    # (3) the text normalisation is applied to index-backed keys only (the present path leaves every other value as written)
    bad = []
    for m_ in mt:
        guarded = False
        for (sb, place, adt, mm, els) in me.variant_edges():
            if adt == "core::option::Option" and "Some" in mm and mm["Some"] != els and me.dominates(mm["Some"], m_.call_block):
                if any(o[0] == "call" and o[1].name.endswith("matching::column_of") for o in me.slice_back_local(place.l, proj=place)):
                    guarded = True
        for q in me.calls_named(r"Option::<T>::is_some$"):
            if any(o[0] == "call" and o[1].name.endswith("matching::column_of") for o in me.slice_back_op(q.args[0])):
                heads = {x.block for x in me.calls_named(r"Iterator>?::next$") if me.dominates(x.block, q.block)}
                r_ = valueflow.reachable_if_result(me, q, 0, avoid=heads)
                if m_.call_block not in r_ and m_.block not in r_ and me.dominates(q.block, m_.call_block):
                    guarded = True
        if not guarded:
            bad.append(m_)
    rep.ob("R18.5", "text-normalisation-only-for-index-keys|match_element", not bad,
           "matcher_text (which refuses every value that is not a string) runs for keys column_of does not list: at a coordinate `{confidence: 0.9}` "
           "or `{aliases: []}` is a TypeMismatch where the present compares the value", (bad[0].where() if bad else me.file))

    # (4) the engine state lives in the view's `_system` envelope, not among the payload members a key names by default: a
    #     state constraint decided on the view needs its own view_key arm - or is decided on the element itself
    on_view = (None, "state") in vtab or any(key == "state" for (_, key) in vtab)
    on_elem = [e for e in me.calls_named(r"store::Element::state$") if any(me.dominates(l.block, e.block) or me.can_reach([l.block], [e.block]) for l in loads)]
    rep.ob("R18.5", "state-constraint-decided-at-a-coordinate|match_element", on_view or bool(on_elem),
           "at a coordinate a `{state: ..}` constraint is compared with the view member view_key names, view_key has no arm for `state` (the view carries it "
           "at _system.state) and the matcher never reads Element::state: every state-constrained pattern answers nothing in the past", vk.file + ":%d" % vk.line)

    # (5) the present enumerates candidates in ascending row id; the reconstruction from the version log must not hand them out
    #     in the text order of their ids ("A-10" < "A-2"): the projection ledger and float aggregates are order-sensitive
    ea = prog.fn(nx.N + "::store::history::<impl Store>::elements_at") if prog.has_fn(nx.N + "::store::history::<impl Store>::elements_at") else None
    if ea is None:
        c_ = [f for f in prog.fns.values() if f.path.endswith("::elements_at") and "::store::" in f.path and f.kind != "Closure"]
        if not c_:
            raise CheckerFault("anchor missing: Store::elements_at")
        ea = prog.async_body(c_[0]) or c_[0]
    rep.saw(ea, len(ea.events))
    text_keyed = [t for t in ea.locals if "BTreeMap<alloc::string::String" in t and "ElementVersionRow" in t]
    sorts = ea.calls_named(r"slice::<impl \[T\]>::sort(_by|_by_key|_unstable|_unstable_by|_unstable_by_key|_by_cached_key)?$")
    rep.ob("R18.5", "candidates-in-id-order|elements_at", not text_keyed or bool(sorts),
           "elements_at reduces the log into a map keyed by the id's text and returns its values unsorted: with ten elements of a kind the past visits "
           "A-1, A-10, A-11, A-2 .. where the present visits A-1, A-2 .. - assertion_ids of a belief, SUM / AVG of confidences differ", ea.file + ":%d" % ea.line)


def read_context_rules(rep, rule, prog):
    """Context::load / Context::candidates: coordinate routing and admit-before-cache/return (shared by C18 R18.3 and C19 R19.1)."""
    ld = prog.fn(nx.N + "::kql::Context::<'a>::load")
    rep.saw(ld, len(ld.events))
    ea = ld.calls_named(r"Store>?::element_at$")
    # the present row may also be fetched on the bound edge - after the historical one, to put it to the access decision (C19 R19.8);
    # what the routing rule is about is the row that is admitted and returned
    ge = [e for e in ld.calls_named(r"store::Store::get_element$") if not any(ld.dominates(h.block, e.block) and h.block != e.block for h in ea)]
    ad = ld.calls_named(r"kql::Context::<'a>::admit$")
    some = [m.get("Some") for (sb, place, adt, m, els) in ld.variant_edges() if adt == "core::option::Option" and "as_of" in (set(place.fields()) | ld.slice_fields({"c": {"l": place.l}}))]
    none = [m.get("None") for (sb, place, adt, m, els) in ld.variant_edges() if adt == "core::option::Option" and "as_of" in (set(place.fields()) | ld.slice_fields({"c": {"l": place.l}}))]
    ok = bool(ea) and bool(ge) and bool(some) and all(s is not None and ld.dominates(s, e.block) for s in some for e in ea) and all(n is not None and ld.dominates(n, e.block) for n in none for e in ge)
    rep.ob(rule, "coordinate-routes-to-history|Context::load", ok, "with as_of = Some(seq) the element comes from element_at; only the unbound edge reads the present row", ld.file + ":%d" % ld.line)
    ins = ld.calls_named(r"BTreeMap::<K, V, A>::insert$|HashMap::<K, V, S, A>::insert$|HashMap::<K, V, S>::insert$")
    ok = bool(ad) and bool(ins) and all(ld.must_pass([a.block for a in ad], [i.block]) for i in ins)
    okr = [b for b in ld.live_blocks() for st in ld.stmts(b) if st[0] == "A" and st[1]["l"] == 0 and st[2]["k"] == "agg" and st[2]["a"].get("v") == "Ok"]
    fresh_ok = [b for b in okr if any(ld.can_reach([e.block], [b]) for e in ea + ge)]
    ok = ok and bool(fresh_ok) and all(ld.must_pass([a.block for a in ad], [b]) or not any(ld.can_reach([e.block], [b]) for e in ea + ge) for b in okr)
    rep.ob(rule, "admit-before-cache-and-return|Context::load", ok, "a freshly loaded element (present or historical) is cached and returned only after admit", ld.file + ":%d" % ld.line)
    cd = prog.fn(nx.N + "::kql::Context::<'a>::candidates")
    el = cd.calls_named(r"Store>?::elements_at$")
    ad2 = cd.calls_named(r"kql::Context::<'a>::admit$")
    push = cd.calls_named(r"Vec::<T, A>::push$")
    ok = bool(el) and bool(ad2) and bool(push) and all(cd.must_pass([a.block for a in ad2], [p.block]) for p in push if cd.can_reach([el[0].block], [p.block]))
    rep.ob(rule, "historical-candidates-admitted|Context::candidates", ok, "ids reconstructed from the version log become candidates only after admit", cd.file + ":%d" % cd.line)


def _row_local(f, op):
    """The user variable (`row`) a `&row` operand refers to."""
    p = core.op_place(op)
    if p is None:
        return None
    seen = set()
    f.slice_back_local(p.l, seen=seen, through=lambda ev: False)
    cands = [l for l in seen if f.var_name(l) == "row" and not f.locals[l].startswith("alloc::boxed::Box") and "store::Element" not in f.locals[l]]
    return tuple(sorted(cands)) if cands else None


def _arm_of(f, e, adt_path):
    for (sb, place, adt, m, els) in f.variant_edges():
        if adt == adt_path:
            for v, tb in m.items():
                if f.dominates(tb, e.block):
                    return v
    return None
