"""C18 — reading AS OF a past point returns what was current then.  (DESIGN §4 C18)"""
import re

from lib import core, valueflow
from lib.report import CheckerFault
from . import nx

EXPLAIN = (
    "Static analysis over rustc MIR of anda_cognitive_nexus: R18.1 in the transactional writer every element row put is followed on its success path by the version-log append for the same "
    "row before the function can return (one pair per element kind), and element rows are written by no other function reachable from a KIP command; R18.2 the version log is append-only: "
    "rows of the element_versions collection are removed only by Store::remove_versions / purge_versions, remove_versions is reachable only from commit under the staged purges (filled only by "
    "stage_purge), and no update primitive is ever applied to that collection; R18.3 the read context routes a bound coordinate to element_at and both routes through the admission check. "
    "R18.4 (payload immutability of Assertion/Evidence) is decided under C16 R16.4. "
    "Not decided: equality of live and historical query results - two evaluators agreeing is a behavioural relation.")

TX = nx.N + "::tx::Transaction"


def run(rep, tier):
    prog = nx.load()
    rep.not_decided = "equality of historical and then-live query results (same elements, fields, projected beliefs), schema-environment resolution at the coordinate"
    rep.assumptions = ["rustc MIR", "anda_db Collection add/update/remove are the storage primitives", "the version log is the element_versions collection"]

    rep.rule("R18.1", "every element row put in the transactional writer is followed by record_version before returning; element rows have no other writer on the KIP path", floor=7)
    wr = prog.fn(TX + "::write")
    rep.saw(wr, len(wr.events))
    puts = wr.calls_named(r"Store>?::put$")
    recs = wr.calls_named(r"Store>?::record_version$")
    rets = set(wr.return_blocks())
    kinds = [v["name"] for v in prog.adt(nx.N + "::store::Element")["variants"]]
    rep.ob("R18.1", "one-pair-per-kind|Transaction::write", len(puts) == len(kinds) and len(recs) == len(kinds), "%d element kinds, %d puts, %d version appends" % (len(kinds), len(puts), len(recs)), wr.file + ":%d" % wr.line)
    for i, p in enumerate(sorted(puts, key=lambda e: e.line * 10000 + e.block)):
        oks, errs = wr.result_edges(p)
        # the row argument of the following record_version is the row that was put
        ok = bool(oks) and not any(wr.reachable_from([t], avoid=[r.block for r in recs]) & rets for t in oks)
        same = False
        for r in recs:
            if any(wr.dominates(t, r.block) for t in oks):
                prow = _row_local(wr, p.args[1])
                rrow = _row_local(wr, r.args[5]) if len(r.args) > 5 else None
                if prow is not None and prow == rrow:
                    same = True
        kind = _arm_of(wr, p, nx.N + "::store::Element")
        rep.ob("R18.1", "put-then-version|%s" % (kind or i), ok and same, "a successful put of an element row must be followed by record_version of the same row before the writer returns", p.where())
    reach_kml = prog.reach_set([prog.fn(nx.N + "::kml::execute", body=False).id])
    for name, allowed in (("put", {"tx::Transaction::write"}), ("put_row", {"tx::<impl store::Store>::put"}), ("insert", {"tx::Transaction::insert_shell"})):
        m = nx.store_method(prog, name)
        callers = {nx.outer_name(prog, f) for (f, e) in nx.callers_of(prog, {m.id}) if prog.outer_fn(f).id in reach_kml or name != "insert"}
        rep.ob("R18.1", "who-may-call|Store::%s" % name, bool(callers) and callers <= allowed, "Store::%s is called from %s (allowed %s)" % (name, sorted(callers), sorted(allowed)), m.file + ":%d" % m.line)

    rep.rule("R18.2", "version log append-only: removers are remove_versions/purge_versions only; remove_versions only from commit under staged purges; no update on the log", floor=5)
    touching = {}
    for f in prog.fns.values():
        if f.crate != nx.N:
            continue
        for e in f.calls_named(r"^anda_db::collection::Collection::(add|add_from|update|remove|save_extension\w*)$"):
            org = {o[1].name.rsplit("::", 1)[1] for o in f.slice_back_op(e.args[0]) if o[0] == "call"}
            if "element_versions" in org:
                touching.setdefault(e.callee.rsplit("::", 1)[1], set()).add(nx.outer_name(prog, f))
    rep.note("version_log_primitives", {k: sorted(v) for k, v in touching.items()})
    rep.ob("R18.2", "appenders", touching.get("add_from", set()) == {"store::history::<impl store::Store>::record_version"} and not touching.get("add"),
           "rows enter the version log only through record_version (found %s)" % sorted(touching.get("add_from", set()) | touching.get("add", set())), "rs/anda_cognitive_nexus/src/store/history.rs")
    rep.ob("R18.2", "removers", touching.get("remove", set()) <= {"store::history::<impl store::Store>::remove_versions"} and bool(touching.get("remove")),
           "rows leave the version log only through remove_versions (found %s)" % sorted(touching.get("remove", set())), "rs/anda_cognitive_nexus/src/store/history.rs")
    rep.ob("R18.2", "never-updated", not touching.get("update"), "no update primitive is applied to the version log (found %s)" % sorted(touching.get("update", set())), "rs/anda_cognitive_nexus/src/store/history.rs")
    rv = nx.store_method(prog, "remove_versions")
    callers = {nx.outer_name(prog, f) for (f, e) in nx.callers_of(prog, {rv.id})}
    rep.ob("R18.2", "who-may-call|remove_versions", callers <= {"tx::Transaction::commit", "store::history::<impl store::Store>::purge_versions"} and "tx::Transaction::commit" in callers,
           "remove_versions callers: %s" % sorted(callers), rv.file + ":%d" % rv.line)
    pv = nx.store_method(prog, "purge_versions")
    pcallers = {nx.outer_name(prog, f) for (f, e) in nx.callers_of(prog, {pv.id})}
    rep.ob("R18.2", "who-may-call|purge_versions", not (pcallers & {nx.outer_name(prog, prog.fns[i]) for i in reach_kml if i in prog.fns}) or pcallers <= {"governance::purge::erase"},
           "purge_versions is not reachable from a KIP mutation except through the purge tooling (callers %s)" % sorted(pcallers), pv.file + ":%d" % pv.line)
    cm = prog.fn(TX + "::commit")
    rvc = cm.calls_named(r"Store>?::remove_versions$")
    ok = False
    for e in rvc:
        flds = cm.slice_fields(e.args[1], through=lambda ev: ev.callee in core.TRANSPARENT or ev.callee.endswith("BTreeMap::<K, V, A>::get") or "Deref" in ev.callee)
        org = {o[1].name.rsplit("::", 1)[1] for o in cm.slice_back_op(e.args[1], through=lambda ev: ev.callee in core.TRANSPARENT or "Deref" in (ev.callee or "")) if o[0] == "call"}
        ok = "purges" in flds or "get" in org
    rep.ob("R18.2", "commit-removes-only-staged-purges", ok and bool(rvc), "commit destroys exactly the version ids recorded in self.purges", (rvc[0].where() if rvc else cm.file))
    pw = set()
    for f in prog.fns.values():
        if f.crate != nx.N or not prog.outer_fn(f).path.startswith(TX + "::"):
            continue
        for e in f.calls_named(r"BTreeMap::<K, V, A>::(insert|entry|extend|append)$"):
            if "purges" in f.slice_fields(e.args[0]):
                pw.add(nx.outer_name(prog, f))
    rep.ob("R18.2", "purges-filled-by-stage_purge", pw == {"tx::Transaction::stage_purge"}, "Transaction.purges is filled only by stage_purge (found %s)" % sorted(pw), TX)

    rep.rule("R18.3", "read context: a bound coordinate routes to element_at; both routes pass admit before an element is returned or cached", floor=3)
    read_context_rules(rep, "R18.3", prog)
    # ------------------------------------------------------------------ R18.4 pushed-down activity filter re-applied at a coordinate
    rep.rule("R18.4", "a pattern matcher that narrows its candidates by state = active through the (present-time) index re-checks activity against the "
                      "loaded historical row before it uses the row, on every path taken at a coordinate", floor=4)
    from lib import valueflow

    def cstrs(f, o):
        return {x[1].get("str") for x in f.slice_back_op(o) if x[0] == "const" and x[1].get("str") is not None}

    def state_checks(f):
        out = []
        for e in f.calls():
            nm = e.name or ""
            if re.search(r"PartialEq.*::(eq|ne)$", nm) and len(e.args) >= 2:
                fl = f.slice_fields(e.args[0]) | f.slice_fields(e.args[1])
                if "state" in fl and "active" in (cstrs(f, e.args[0]) | cstrs(f, e.args[1])):
                    out.append(e)
            elif re.search(r"::is_active$", nm):
                out.append(e)
        return out
    SCOPE = ("/kql/", "/projection/", "/meta/")
    helpers = {f.id for f in prog.fns.values() if any(x in f.file for x in SCOPE) and f.kind != "Closure" and state_checks(f)}
    ninst = 0
    for f in prog.fns.values():
        if not any(x in f.file for x in SCOPE):
            continue
        push = [e for e in f.calls_named(r"eq_field$") if e.args and "state" in cstrs(f, e.args[0])]
        hist = f.calls_named(r"::is_historical$")
        loads = f.calls_named(r"Context.*::load$")
        if not (push and hist and loads):
            continue
        ninst += 1
        rep.saw(f, len(f.events))
        name = prog.outer_fn(f).path.rsplit("::", 1)[1]
        checks = state_checks(f) + [e for e in f.calls() if e.cid in helpers or e.rid in helpers]
        uses = [e.block for e in f.calls_named(r"alloc::vec::Vec::<T, A>::push$") if any(f.can_reach([l_.block], [e.block]) for l_ in loads)]
        hb = {h.block: h.dest.l for h in hist if not h.dest.p}
        try:
            at = valueflow.analyse(f, load_blocks=hb, domain=(0, 1), marks={e.block for e in push}, avoid={c.block for c in checks})
            bad = []
            for ub in uses:
                for envf in at.get(ub, ()):
                    env = dict(envf)
                    if env.get(("mark",)) == 1 and any(env.get(("ghost", b)) == 1 for b in hb):
                        bad.append(ub)
                        break
        except RuntimeError:
            bad = [ub for ub in uses if ub in f.reachable_from([0], avoid={c.block for c in checks})]
        rep.ob("R18.4", "historical-recheck-of-activity|%s" % name, bool(uses) and bool(checks) and not bad,
               "at a coordinate the candidates come from the version log, not from the state index: a row can reach the result of %s without "
               "its state being compared with \"active\" (or is_active / a matcher that does so)" % name,
               (f.file + ":%d" % f.term(bad[0]).get("ln", f.line)) if bad else f.file + ":%d" % f.line)
    if ninst < 4:
        rep.fault("R18.4: only %d matcher(s) with a pushed-down state filter found" % ninst)
    return rep.finish(EXPLAIN)


def read_context_rules(rep, rule, prog):
    """Context::load / Context::candidates: coordinate routing and admit-before-cache/return (shared by C18 R18.3 and C19 R19.1)."""
    ld = prog.fn(nx.N + "::kql::Context::<'a>::load")
    rep.saw(ld, len(ld.events))
    ea = ld.calls_named(r"Store>?::element_at$")
    ge = ld.calls_named(r"store::Store::get_element$")
    ad = ld.calls_named(r"kql::Context::<'a>::admit$")
    some = [m.get("Some") for (sb, place, adt, m, els) in ld.variant_edges() if adt == "core::option::Option" and "as_of" in (set(place.fields()) | ld.slice_fields({"c": {"l": place.l}}))]
    none = [m.get("None") for (sb, place, adt, m, els) in ld.variant_edges() if adt == "core::option::Option" and "as_of" in (set(place.fields()) | ld.slice_fields({"c": {"l": place.l}}))]
    ok = bool(ea) and bool(ge) and bool(some) and all(s is not None and ld.dominates(s, e.block) for s in some for e in ea) and all(n is not None and ld.dominates(n, e.block) for n in none for e in ge)
    rep.ob(rule, "coordinate-routes-to-history|Context::load", ok, "with as_of = Some(seq) the element comes from element_at; only the unbound edge reads the present row", ld.file + ":%d" % ld.line)
    ins = ld.calls_named(r"BTreeMap::<K, V, A>::insert$|HashMap::<K, V, S, A>::insert$|HashMap::<K, V, S>::insert$")
    ok = bool(ad) and bool(ins) and all(ld.must_pass([a.block for a in ad], [i.block]) for i in ins)
    okr = [b for b in ld.live_blocks() for st in ld.stmts(b) if st[0] == "A" and st[1]["l"] == 0 and st[2]["k"] == "agg" and st[2]["a"].get("v") == "Ok"]
    fresh_ok = [b for b in okr if any(ld.can_reach([e.block], [b]) for e in ea + ge)]
    ok = ok and bool(fresh_ok) and all(ld.must_pass([a.block for a in ad], [b]) or not any(ld.can_reach([e.block], [b]) for e in ea + ge) for b in okr)
    rep.ob(rule, "admit-before-cache-and-return|Context::load", ok, "a freshly loaded element (present or historical) is cached and returned only after admit", ld.file + ":%d" % ld.line)
    cd = prog.fn(nx.N + "::kql::Context::<'a>::candidates")
    el = cd.calls_named(r"Store>?::elements_at$")
    ad2 = cd.calls_named(r"kql::Context::<'a>::admit$")
    push = cd.calls_named(r"Vec::<T, A>::push$")
    ok = bool(el) and bool(ad2) and bool(push) and all(cd.must_pass([a.block for a in ad2], [p.block]) for p in push if cd.can_reach([el[0].block], [p.block]))
    rep.ob(rule, "historical-candidates-admitted|Context::candidates", ok, "ids reconstructed from the version log become candidates only after admit", cd.file + ":%d" % cd.line)


def _row_local(f, op):
    """The user variable (`row`) a `&row` operand refers to."""
    p = core.op_place(op)
    if p is None:
        return None
    seen = set()
    f.slice_back_local(p.l, seen=seen, through=lambda ev: False)
    cands = [l for l in seen if f.var_name(l) == "row" and not f.locals[l].startswith("alloc::boxed::Box") and "store::Element" not in f.locals[l]]
    return tuple(sorted(cands)) if cands else None


def _arm_of(f, e, adt_path):
    for (sb, place, adt, m, els) in f.variant_edges():
        if adt == adt_path:
            for v, tb in m.items():
                if f.dominates(tb, e.block):
                    return v
    return None
