"""C05 — concurrent writers serialize.  (DESIGN §4 C05)  Decides the lock discipline only."""
import re

from lib import core, valueflow
from lib.report import CheckerFault
from . import anda
from .c01 import effect_sites, path_class
from .c06_db import _bool_switch

EXPLAIN = (
    "Static analysis over rustc MIR of anda_db::collection and anda_db::storage: R05.1 every checkpoint-class entry (flush, close, compaction, reconcile, drop) holds the "
    "operation gate exclusively and every document mutator holds it (shared or exclusive) from before its first effect to after its last; R05.2 update/remove hold the per-document "
    "stripe lock across the read-modify-write (fetch, index mutations, document write); R05.3 ids are allocated by a single atomic fetch_add; R05.4 every backend write bumps the "
    "cache generation on its success path before returning, and the read cache is filled / served only under the generation equality test; R05.5 unclaimed metadata writers serialize "
    "on the extension gate before reading the expected object version, and the claimed writers are reachable only from the checkpoint. Not decided: linearizability, return values.")

GATE_TY = r"tokio::sync::rwlock::owned_(read|write)_guard::OwnedRwLock(Read|Write)Guard"
CHECKPOINT_RX = re.compile(r"^anda_db::collection::Collection::(store_indexes|store_ids|flush_inner|reconcile_storage_impl)$|"
                           r"^anda_db::storage::Storage::(store_metadata|drop_data)$|^anda_db::index::\w+::\w+::(compact_index|flush)$")


def run(rep, tier):
    prog = anda.load()
    C = anda.Coll(prog)
    rep.not_decided = "linearizability, per-call return values, what a concurrent flush persisted"
    rep.assumptions = ["rustc MIR", "tokio RwLock/Mutex are locks; a guard is released at its Drop", "moka cache insert/get are atomic per key"]
    eff_all = prog.reaching(anda.is_effect)
    entries = [f for f in C.methods if f.vis in ("pub", "crate") and f.id in eff_all and C.receiver_kind(f) == "shared"]
    entry_ids = {f.id for f in entries}
    eff = prog.reaching(anda.is_effect, stop=lambda n, f: n in entry_ids)
    ckpt = prog.reaching(lambda n, f: bool(CHECKPOINT_RX.search(anda.node_name(n, f))), stop=lambda n, f: n in entry_ids)

    # ------------------------------------------------------------------ R05.1
    rep.rule("R05.1", "operation gate: exclusive for checkpoint-class entries, held (any mode) across all effects of every shared-handle mutator", floor=20)
    for f in sorted(entries, key=lambda f: f.path):
        body = prog.async_body(f) or f
        evs = [e for e in effect_sites(prog, body, eff) if not any(n in entry_ids for n in prog.callee_nodes(e))]
        if not evs:
            continue
        rep.saw(body, len(body.events))
        acqs = C.gate_acquires(body)
        modes = {m for (_, m, _) in acqs}
        is_ckpt = any(prog.event_in(e, ckpt) for e in evs)
        name = f.path.rsplit("::", 1)[1]
        if is_ckpt:
            rep.ob("R05.1", "exclusive|%s" % name, modes == {"exclusive"},
                   "%s reaches a checkpoint/compaction/drop step and must take operation_gate exclusively (found %s)" % (name, sorted(modes)), f.file + ":%d" % f.line)
        else:
            rep.ob("R05.1", "gated|%s" % name, bool(modes), "%s mutates documents and must hold an operation_gate lease (found none)" % name, f.file + ":%d" % f.line)
        ins, outs = core.guard_flow(body, [a for (a, _, _) in acqs], GATE_TY)
        bad = [e for e in evs if not ins.get(e.block) and not (e.call_block != e.block and ins.get(e.call_block))]
        rep.ob("R05.1", "held-across-effects|%s" % name, not bad,
               "operation_gate guard is not held at: %s" % ", ".join("%s (line %d)" % (e.name.rsplit("::", 1)[1], e.line) for e in bad), f.file + ":%d" % f.line)
    # private lease users (cleanup_removed_index): same rule
    for f in C.methods:
        if f.vis != "private" or C.receiver_kind(f) != "shared":
            continue
        body = prog.async_body(f) or f
        acqs = C.gate_acquires(body)
        if not acqs:
            continue
        evs = effect_sites(prog, body, eff_all)
        if not evs or f.id in C.lease_ids:
            continue
        ins, outs = core.guard_flow(body, [a for (a, _, _) in acqs], GATE_TY)
        bad = [e for e in evs if not ins.get(e.block)]
        rep.ob("R05.1", "held-across-effects|%s" % f.path.rsplit("::", 1)[1], not bad, "operation_gate guard not held at %s" % [e.name for e in bad], f.file + ":%d" % f.line)

    # ------------------------------------------------------------------ R05.2 stripe lock
    rep.rule("R05.2", "update_impl/remove_impl hold the per-document stripe lock across fetch, index mutations and the document write", floor=2)
    for name in ("update_impl", "remove_impl"):
        f = prog.fn(anda.COLL + "::" + name)
        rep.saw(f, len(f.events))
        acq = []
        for e in f.calls_named(r"tokio::sync::mutex::Mutex::<T>::lock$"):
            origins = f.slice_back_op(e.args[0])
            if any(o[0] == "call" and o[1].name.endswith("Collection::doc_lock") for o in origins):
                acq.append(e)
        ins, outs = core.guard_flow(f, acq, r"tokio::sync::mutex::MutexGuard")
        sites = effect_sites(prog, f, eff_all) + [e for e in f.calls_named(r"^anda_db::storage::Storage::get$") if "fn:doc_path" in path_class(prog, f, e)]
        bad = [e for e in sites if not ins.get(e.block)]
        rep.ob("R05.2", "stripe-held|%s" % name, bool(acq) and bool(sites) and not bad,
               "doc stripe lock not held at: %s" % ", ".join("%s (line %d)" % (e.name.rsplit("::", 1)[1], e.line) for e in bad), f.file + ":%d" % f.line)
        # the stripe is chosen from the document id being mutated: doc_lock's argument derives from the id parameter
    # ------------------------------------------------------------------ R05.6 provisional index changes are isolated
    rep.rule("R05.6", "the provisional index changes of one add / update and their rollback when a later index refuses form one critical section with "
             "respect to other writers: an exclusive, collection-wide guard is held from the forward pass to the rollback (the operation gate is "
             "shared between mutations and the document stripe is per id)", floor=2)
    from . import c02 as _c02
    fams_ = _c02.families(prog)
    for name in ("add_impl", "update_impl"):
        g = prog.fn(anda.COLL + "::" + name)
        clos = [prog.fns[e.cid] for e in g.creates() if e.cid in prog.fns and _c02.fam_ops(prog, [prog.fns[e.cid]] + prog.closures_of(prog.fns[e.cid]), fams_)]
        sites = [e for e in g.calls() if any(c.id in prog.callee_nodes(e) for c in clos)]
        if len(clos) < 2 or len(sites) < 2:
            raise CheckerFault("anchor missing: forward / rollback index closures of %s" % name)
        # candidate guards: any lock acquired on a field of the collection other than the shared operation gate and the per-id stripe
        acq = []
        for e in g.calls_named(r"(tokio::sync::mutex::Mutex::<T>::lock|lock_api::mutex::Mutex::<R, T>::lock|std::sync::(poison::)?mutex::Mutex::<T>::lock|"
                               r"tokio::sync::rwlock::RwLock::<T>::write|lock_api::rwlock::RwLock::<R, T>::write)$"):
            org = g.slice_back_op(e.args[0]) if e.args else []
            if any(o[0] == "call" and o[1].name.endswith("Collection::doc_lock") for o in org):
                continue
            if "operation_gate" in anda.recv_fields(g, e):
                continue
            acq.append(e)
        held_everywhere = False
        for a in acq:
            ins, outs = core.guard_flow(g, [a], r"(MutexGuard|RwLockWriteGuard)")
            if all(ins.get(x.block) for x in sites):
                held_everywhere = True
        rep.ob("R05.6", "index-phase-isolated|%s" % name, held_everywhere,
               "%s publishes its index changes (a unique key taken or, for an update, released) while later indexes may still refuse the call, and no "
               "exclusive collection-wide guard covers the forward pass and its rollback: a concurrent writer of another document is acknowledged on the "
               "provisional state - a refused update lends its unique key to a concurrent add (durable duplicate, handle poisoned), a refused add makes a "
               "concurrent add of the same key fail although no serial order refuses it" % name, g.file + ":%d" % g.line)

    # ------------------------------------------------------------------ R05.3
    rep.rule("R05.3", "document ids are allocated by one atomic fetch_add on max_document_id", floor=1)
    n = 0
    for f in prog.fns.values():
        if f.crate != "anda_db":
            continue
        for e in f.calls_named(r"Atomic::<u64>::fetch_add$"):
            if "max_document_id" in anda.recv_fields(f, e):
                n += 1
                k = e.args[1].get("k")
                rep.ob("R05.3", "atomic-alloc|%s" % prog.outer_fn(f).path.rsplit("::", 1)[1], k is not None and k.get("int") == "1", "allocation step must be the constant 1", e.where())
    rep.ob("R05.3", "single-site", n == 1, "exactly one allocation site (found %d)" % n, anda.COLL)

    # ------------------------------------------------------------------ R05.4 cache coherence
    rep.rule("R05.4", "every backend write reaches the cache-generation bump on its success path; cache fill/hit only under the generation equality test", floor=6)
    bump_ids = {f.id for f in prog.fns.values() if f.path.endswith("InnerStorage::bump_cache_write_seq")}
    if not bump_ids:
        raise CheckerFault("anchor missing: InnerStorage::bump_cache_write_seq")
    bumping = prog.reaching(lambda n, f: n in bump_ids)
    nw = 0
    for f in prog.fns.values():
        if f.crate != "anda_db" or "/storage.rs" not in f.file:
            continue
        writes = [e for e in f.calls() if any(anda.OBJ_WRITE_RX.search(n) for n in e.names())]
        for w in writes:
            nw += 1
            rep.saw(f, 1)
            oks, errs = f.result_edges(w)
            bumps = {e.block for e in f.events if e.kind != "ref" and e.callee not in core.NOISE_CALLEES and prog.event_in(e, bumping | bump_ids)}
            rets = set(f.return_blocks())
            ok = bool(oks) and bool(bumps) and not any(f.reachable_from([t], avoid=bumps) & rets for t in oks)
            rep.ob("R05.4", "bump-after-write|%s" % prog.outer_fn(f).path.rsplit("::", 2)[-2] + "::" + prog.outer_fn(f).path.rsplit("::", 1)[1], ok,
                   "the success path of the backend write %s must pass bump_cache_write_seq before returning" % w.name, w.where())
    # stream writer: shutdown path
    for f in prog.fns.values():
        if f.crate == "anda_db" and f.path.endswith("StreamWriter as tokio::io::async_write::AsyncWrite>::poll_shutdown"):
            rep.saw(f, len(f.events))
            bumps = {e.block for e in f.events if e.kind != "ref" and prog.event_in(e, bumping | bump_ids)}
            rep.ob("R05.4", "bump-after-write|StreamWriter::poll_shutdown", bool(bumps), "a completed stream write bumps the cache generation", f.file + ":%d" % f.line)
    g = None
    for f in prog.fns.values():
        if f.crate == "anda_db" and re.search(r"Storage::inner_get::\{closure#0\}$", f.path):
            g = f
    if g is None:
        raise CheckerFault("anchor missing: Storage::inner_get")
    rep.saw(g, len(g.events))
    seqs = g.calls_named(r"InnerStorage::cache_write_seq$")
    fetch = g.calls_named(r"Storage::inner_fetch$")
    inserts = g.calls_named(r"moka::future::cache::Cache::<K, V, S>::insert$|moka::future::Cache::<K, V, S>::insert$")
    before = [s for s in seqs if fetch and g.dominates(s.block, fetch[0].block) and not g.dominates(fetch[0].block, s.block)]
    after = [s for s in seqs if fetch and g.dominates(fetch[0].block, s.block) and s.block != fetch[0].block]
    ok = False
    hit_ok = False
    for b in g.live_blocks():
        for st in g.stmts(b):
            if st[0] == "A" and st[2]["k"] == "bin" and st[2]["op"] == "Eq":
                la, lb = core.op_place(st[2]["a"]), core.op_place(st[2]["b"])
                if la is None or lb is None:
                    continue
                da = {o[1] for o in g.slice_back_local(la.l, through=lambda ev: False) if o[0] == "call"}
                db = {o[1] for o in g.slice_back_local(lb.l, through=lambda ev: False) if o[0] == "call"}
                fa = g.slice_fields(st[2]["a"], through=lambda ev: ev.callee in core.TRANSPARENT) | g.slice_fields(st[2]["b"], through=lambda ev: ev.callee in core.TRANSPARENT)
                t = g.term(b)
                if t["k"] != "switch":
                    continue
                tt = t["else"]
                if (da & set(before) and db & set(after)) or (db & set(before) and da & set(after)):
                    if inserts and all(g.dominates(tt, i.block) for i in inserts):
                        ok = True
                if "write_seq" in fa and ((da | db) & set(seqs)):
                    # cached hit: the early Ok return lies on the true edge only
                    ft = dict(t["v"]).get("0")
                    hit_ok = True
    rep.ob("R05.4", "fill-under-generation-test|inner_get", ok and bool(inserts),
           "cache.insert must be dominated by the true edge of `cache_write_seq(path) == <value observed before the fetch>`", (inserts[0].where() if inserts else g.file))
    rep.ob("R05.4", "hit-under-generation-test|inner_get", hit_ok, "a cached entry is served only when its write_seq equals the current generation", g.file + ":%d" % g.line)

    # ------------------------------------------------------------------ R05.5
    rep.rule("R05.5", "store_metadata_unclaimed serializes on extension_write_gate before reading metadata_version; claimed writers only from flush_inner", floor=3)
    f = prog.fn(anda.COLL + "::store_metadata_unclaimed")
    rep.saw(f, len(f.events))
    gate = [e for e in f.calls_named(r"tokio::sync::mutex::Mutex::<T>::lock$") if "extension_write_gate" in anda.recv_fields(f, e)]
    ver = [e for e in f.calls_named(r"lock_api::rwlock::RwLock::<R, T>::read$") if "metadata_version" in anda.recv_fields(f, e)]
    snap = f.calls_named(r"Collection::metadata$")
    puts = f.calls_named(r"^anda_db::storage::Storage::put_bytes$")
    ins, outs = core.guard_flow(f, gate, r"tokio::sync::mutex::MutexGuard")
    ok = bool(gate) and bool(ver) and bool(puts) and all(f.must_pass([g.block for g in gate], [x.block]) for x in ver + snap + puts) and all(ins.get(p.block) for p in puts)
    rep.ob("R05.5", "extension-gate|store_metadata_unclaimed", ok,
           "extension_write_gate is taken before the metadata snapshot / expected version are read and is held across the put", f.file + ":%d" % f.line)
    for callee, allowed in (("store_metadata", {"flush_inner"}), ("store_ids", {"flush_inner"}), ("store_metadata_unclaimed", {"save_extension", "remove_extension", "cleanup_removed_index"})):
        callers = set()
        for h in prog.fns.values():
            if h.crate != "anda_db":
                continue
            for e in h.calls_named(r"^anda_db::collection::Collection::%s$" % callee):
                callers.add(prog.outer_fn(h).path.rsplit("::", 1)[1])
        rep.ob("R05.5", "who-may-call|%s" % callee, bool(callers) and callers <= allowed,
               "%s may only be called from %s (found %s)" % (callee, sorted(allowed), sorted(callers)), anda.COLL)

    # ------------------------------------------------------------------ R05.7 the saved-version watermark names what was written
    rep.rule("R05.7", "the flush watermark last_saved_version is raised, behind the metadata PUT, to a value computed before that PUT (the version of the "
             "snapshot that was serialized): a value read after it may count a set_extension / mutation that landed while the PUT was in flight as saved, "
             "and the next flush then takes its no-change path", floor=1)
    watermark_rules(rep, "R05.7", prog, ("anda_db",), 1)
    return rep.finish(EXPLAIN)


def watermark_rules(rep, rid, prog, crates, floor):
    """Every raise of a `last_saved_version` watermark that sits behind an awaited write: the value it is raised to has no
    origin (call / closure result) computed after that write returned.  Raises with no awaited call in front of them (a
    synchronous claim-then-write, or a value handed in by the caller) are counted, not judged."""
    decided = 0
    for h in prog.fns.values():
        if h.crate not in crates:
            continue
        raises = [e for e in h.calls_named(r"Atomic::<u64>::(fetch_max|store|swap|fetch_add)$") if "last_saved_version" in anda.recv_fields(h, e)]
        if not raises:
            continue
        hname = prog.outer_fn(h).path.rsplit("::", 1)[1]
        rep.saw(h, len(raises))
        for e in raises:
            before = [a for a in h.calls() if a.awaited and a.block != e.block and h.dominates(a.block, e.block)]
            if not before or len(e.args) < 2:
                continue
            decided += 1
            late = []
            trav = []       # pass-through calls on the slice that read shared state (`self.metadata.read()`, an atomic load)

            def _through(ev_, trav=trav):
                if ev_.callee in core.TRANSPARENT:
                    if re.search(r"(RwLock|Mutex|Atomic)", ev_.name):
                        trav.append(ev_)
                    return True
                return False
            origins = [o[1] for o in h.slice_back_op(e.args[1], through=_through) if o[0] in ("call", "create") and len(o) > 1]
            for ev in origins + trav:
                if ev is not None and getattr(ev, "fn", h) is h and any(h.dominates(w.block, ev.block) and ev.block != w.block for w in before):
                    late.append(ev)
            rep.ob(rid, "saved-watermark-is-the-written-snapshot|%s|%s" % (h.crate, hname), not late,
                   "%s raises last_saved_version to a value obtained after the write it stands for returned (%s): a change that landed while the write was in "
                   "flight is counted as saved although the written snapshot does not contain it - the next flush is a no-op and the change is lost on reopen" % (
                       hname, ", ".join("%s line %d" % (x.name.rsplit("::", 1)[-1], x.line) for x in late[:3])), e.where())
    if decided < floor:
        raise CheckerFault("anchor missing: %d raise(s) of last_saved_version behind an awaited write in %s (expected >= %d)" % (decided, crates, floor))
