"""Rules shared by the bucketed index crates (anda_db_btree, anda_db_tfs): mutation gate and manifest commit."""
import re

from lib import core, valueflow
from lib.report import CheckerFault

GATE_GUARD_TY = r"lock_api::rwlock::RwLock(Read|Write)Guard<'_, parking_lot::raw_rwlock::RawRwLock, \(\)>"
DASH_MUT_RX = re.compile(r"dashmap::DashMap::<K, V, S>::(entry|get_mut|remove|remove_if|remove_if_mut|insert|alter|alter_all|clear|retain|iter_mut|try_entry|try_get_mut)$|"
                         r"dashmap::.*::(entry|get_mut|remove|remove_if|insert|clear|retain|iter_mut)$")
RWLOCK_WRITE_RX = re.compile(r"lock_api::rwlock::RwLock::<R, T>::write$")
_PROG = {}


def load():
    if "p" not in _PROG:
        _PROG["p"] = core.Program(["anda_db_btree", "anda_db_tfs", "anda_db_hnsw", "anda_db"])
    return _PROG["p"]


def recv_fields(f, e):
    return f.slice_fields(e.args[0]) if e.args else set()


def gate_acquires(f, field="mutation_gate"):
    out = []
    for e in f.calls_named(r"lock_api::rwlock::RwLock::<R, T>::(read|write)$"):
        if field in recv_fields(f, e):
            out.append((e, "shared" if e.callee.endswith("::read") else "exclusive"))
    return out


def state_mutations(f, state_fields):
    """Events that obtain mutable access to one of the shared index maps."""
    out = []
    for e in f.calls():
        nm = e.callee or ""
        if DASH_MUT_RX.search(nm) or RWLOCK_WRITE_RX.search(nm):
            fs = recv_fields(f, e) & set(state_fields)
            if fs:
                out.append((e, sorted(fs)[0]))
    return out


def mutation_gate_rules(rep, rule, prog, ty_prefix, mutators, compactor, state_fields, helpers_under_gate, exempt):
    """mutators: names of &self methods that must hold the gate shared; compactor: exclusive;
    helpers_under_gate: private helpers that mutate and must only be called from gate holders;
    exempt: methods allowed to mutate without the gate, with a reason."""
    holders = set()
    for name in list(mutators) + [compactor]:
        f = prog.fn(ty_prefix + "::" + name)
        rep.saw(f, len(f.events))
        acq = gate_acquires(f)
        want = "exclusive" if name == compactor else "shared"
        modes = {m for _, m in acq}
        rep.ob(rule, "gate-mode|%s" % name, modes == {want}, "%s must take mutation_gate in %s mode (found %s)" % (name, want, sorted(modes)), f.file + ":%d" % f.line)
        muts = state_mutations(f, state_fields)
        helper_calls = [e for e in f.calls() if any(e.name.endswith("::" + h) for h in helpers_under_gate)]
        ins, outs = core.guard_flow(f, [a for a, _ in acq], GATE_GUARD_TY)
        bad = [e for e, fld in muts if not ins.get(e.block)] + [e for e in helper_calls if not ins.get(e.block)]
        rep.ob(rule, "gate-held|%s" % name, bool(acq) and bool(muts) and not bad,
               "mutation_gate guard not held at: %s" % ", ".join("%s (line %d)" % (e.name.rsplit("::", 1)[1], e.line) for e in bad), f.file + ":%d" % f.line)
        holders.add(f.id)
    # who may mutate the shared maps
    allowed = set(mutators) | {compactor} | set(helpers_under_gate) | set(exempt)
    for f in prog.fns.values():
        if not prog.outer_fn(f).path.startswith(ty_prefix + "::"):
            continue
        muts = state_mutations(f, state_fields)
        if not muts:
            continue
        outer = prog.outer_fn(f).path[len(ty_prefix) + 2:]
        rep.ob(rule, "who-may-mutate|%s" % outer, outer in allowed,
               "%s obtains mutable access to %s but is neither a gated mutator nor a confirmed exempt function" % (outer, sorted({x for _, x in muts})), muts[0][0].where())
    # helpers are only called from holders (or other helpers)
    for h in helpers_under_gate:
        for f in prog.fns.values():
            if not prog.outer_fn(f).path.startswith(ty_prefix + "::"):
                continue
            for e in f.calls():
                if e.name.endswith("::" + h) and prog.outer_fn(f).path.startswith(ty_prefix):
                    o = prog.outer_fn(f)
                    rep.ob(rule, "helper-caller|%s<-%s" % (h, o.path.rsplit("::", 1)[1]), o.id in holders or o.path.rsplit("::", 1)[1] in helpers_under_gate,
                           "%s mutates shared index state and may only be called while the mutation gate is held" % h, e.where())


def callback_calls(f, tyname):
    return [e for e in f.calls() if re.search(r"ops::function::Fn(Once|Mut)?::call(_once|_mut)?$", e.callee or "") and (e.finfo or {}).get("self", "").lstrip("&mut ").strip() == tyname]


def manifest_commit_rules(rep, rule, prog, f, name, bucket_ty="F", meta_ty="M", saved_rx=r"::mark_bucket(_snapshot)?_saved$", snapshot_rx=r"::serialize_dirty_buckets$|::serialize_bucket$"):
    """f: body of flush_owned_with / flush_with."""
    rep.saw(f, len(f.events))
    bw = callback_calls(f, bucket_ty)
    mw = callback_calls(f, meta_ty)
    if not bw or not mw:
        raise CheckerFault("anchor missing in %s: bucket writer calls %d, metadata writer calls %d" % (name, len(bw), len(mw)))
    # the awaited results: bucket_writer(..).await / metadata_writer(..).await
    okm, errm, errb = set(), set(), set()
    for e in mw:
        o, r = f.result_edges(e)
        okm |= set(o)
        errm |= set(r)
    for e in bw:
        o, r = f.result_edges(e)
        errb |= set(r)
    mb = {e.block for e in mw}
    bb = {e.block for e in bw}
    rep.ob(rule, "buckets-before-manifest|%s" % name, not f.can_reach(mb, bb),
           "no bucket object may be written after the manifest (metadata) commit", mw[0].where())
    rep.ob(rule, "bucket-error-stops|%s" % name, bool(errb) and not any(f.reachable_from([t]) & mb for t in errb),
           "a failed bucket write must not reach the manifest commit", bw[0].where())
    pub = [e for e in f.calls_named(r"Atomic::<u64>::fetch_max$") if "last_saved_version" in recv_fields(f, e)]
    saved = f.calls_named(saved_rx)
    um = f.calls_named(r"::update_metadata$")
    post_um = [e for e in um if any(f.dominates(m, e.block) for m in mb)]
    for label, evs in (("last_saved_version", pub), ("mark_saved", saved), ("manifest-publication", post_um)):
        ok = bool(evs) and bool(okm) and f.must_pass(okm, [e.block for e in evs]) and not any(f.reachable_from([t]) & {e.block for e in evs} for t in errm)
        rep.ob(rule, "after-commit|%s|%s" % (name, label), ok, "%s must happen only on the Ok edge of the manifest commit" % label, (evs[0].where() if evs else f.file))
    # manifest publication closure assigns `buckets`
    assigns = False
    for e in post_um:
        for a in e.args:
            for o in f.slice_back_op(a):
                if o[0] == "create" and o[1].cid in prog.fns:
                    k = prog.fns[o[1].cid]
                    for b in k.live_blocks():
                        for st in k.stmts(b):
                            if st[0] == "A" and st[1].get("p") and [x["n"] for x in st[1]["p"] if isinstance(x, dict) and "n" in x][-1:] == ["buckets"]:
                                assigns = True
    rep.ob(rule, "manifest-published|%s" % name, assigns, "the committed manifest is published in memory (m.buckets = manifest) after the commit", f.file + ":%d" % f.line)
    # snapshot before the first suspension point
    yields = [b for b in f.live_blocks() if f.term(b)["k"] == "yield"]
    snap = f.calls_named(snapshot_rx) + f.calls_named(r"::metadata$")
    ok = bool(snap) and bool(yields) and not any(f.can_reach([y], [s.block]) for y in yields for s in snap)
    rep.ob(rule, "snapshot-before-await|%s" % name, ok, "bucket payloads and the metadata are serialized before the first await (no snapshot step is reachable after a suspension point)", f.file + ":%d" % f.line)
    # the early `nothing to do` return invokes no callback
    return bw, mw


def wrapper_flush_rules(rep, rule, prog, f, name, inner_rx):
    """anda_db wrapper flush_inner: obsolete deletes only after the index flush returned Ok; conditional manifest put."""
    rep.saw(f, len(f.events))
    fl = f.calls_named(inner_rx)
    dels = f.calls_named(r"^anda_db::storage::Storage::delete$")
    okf = set()
    for e in fl:
        okf |= set(f.result_edges(e)[0])
    rep.ob(rule, "obsolete-after-commit|%s" % name, bool(fl) and bool(dels) and bool(okf) and f.must_pass(okf, [d.block for d in dels]),
           "replaced objects are deleted only after the index flush (manifest commit) returned Ok", (dels[0].where() if dels else f.file))
    # the metadata writer closure: put_bytes with PutMode::Update(expected); bucket writer: fresh object path
    upd = False
    for k in prog.closures_of(prog.outer_fn(f)):
        for e in k.calls_named(r"^anda_db::storage::Storage::put_bytes$"):
            for o in k.slice_back_op(e.args[3], through=lambda ev: ev.callee in core.TRANSPARENT):
                if o[0] == "agg" and o[1][2]["a"].get("def", "").endswith("PutMode") and o[1][2]["a"].get("v") == "Update":
                    upd = True
    rep.ob(rule, "conditional-manifest-put|%s" % name, upd, "the manifest commit is a conditional put (PutMode::Update(expected version))", f.file + ":%d" % f.line)


# ---------------------------------------------------------------- optimistic retirement of dirty marks
def _cmp_guards(f, cur_fields):
    """Comparisons one side of which reads a `current version` field: [(op, block, false_target, true_target, site_line)]."""
    out = []
    for b in f.live_blocks():
        for st in f.stmts(b):
            if st[0] != "A" or st[2]["k"] != "bin" or st[2]["op"] not in ("Eq", "Ne", "Lt", "Le", "Gt", "Ge"):
                continue
            fa = f.slice_fields(st[2]["a"])
            fb = f.slice_fields(st[2]["b"])
            if not (cur_fields <= fa or cur_fields <= fb):
                continue
            # the switch that tests this comparison (same block, or through copies in the following blocks)
            der = {st[1]["l"]}
            for b2 in sorted(f.live_blocks()):
                for s2 in f.stmts(b2):
                    if s2[0] == "A" and s2[2]["k"] == "use":
                        p = core.op_place(s2[2]["o"])
                        if p is not None and p.l in der and not p.p:
                            der.add(s2[1]["l"])
                t = f.term(b2)
                if t["k"] == "switch" and core.op_place(t["o"]) is not None and core.op_place(t["o"]).l in der and f.dominates(b, b2):
                    vals = dict(t["v"])
                    if "0" in vals:
                        out.append((st[2]["op"], b2, vals["0"], t["else"], st[3] if len(st) > 3 else f.line))
    return out


def retire_under_equality(rep, rule, f, name, retire_blocks, cur_fields, what):
    """A dirty mark captured at version v may be retired only if the version is *still equal* to v: any mutation that
    crossed the I/O window bumped it, and its change is in memory but not in the bytes just written.  `>=`/`<=` are always
    true for a monotone counter and retire the mark of a node/bucket whose newer state was never persisted."""
    guards = _cmp_guards(f, cur_fields)
    bad = []
    for rb in retire_blocks:
        ok = False
        for (op, sb, ft, tt, ln) in guards:
            eq_edge = tt if op == "Eq" else (ft if op == "Ne" else None)
            if eq_edge is not None and f.dominates(eq_edge, rb) and not f.dominates(eq_edge, sb):
                ok = True
        if not ok:
            bad.append(rb)
    ops = sorted({g[0] for g in guards})
    rep.ob(rule, "retire-only-if-version-unchanged|%s" % name, bool(retire_blocks) and not bad,
           "%s must lie on the equal edge of a comparison of the current version with the snapshot's (found comparisons: %s)" % (what, ops or "none"),
           "%s:%d" % (f.file, guards[0][4] if guards else f.line))


# ---------------------------------------------------------------- a bucket whose content changed is re-persisted
BUCKET_SPECS = {
    "btree": ("anda_db_btree::btree::BTreeIndex::<PK, FV>", ("insert", "insert_array", "remove", "remove_array", "compact_buckets"),
              "0", r"\(usize, bool, anda_db_utils::UniqueVec<FV>, u64\)", r"::mark_bucket_dirty$"),
    "bm25": ("anda_db_tfs::bm25::BM25Index::<T>", ("insert", "remove", "purge_ids", "compact_buckets"),
             "size", r"bm25::Bucket", r"Bucket::mark_dirty$"),
}


def size_change_marks_dirty(rep, rule, prog, which):
    """Every write of a bucket's recorded size (the accounting that accompanies each posting change) is accompanied by marking
    the bucket dirty: either the mark lies between the bucket access and the write, or every path from the write to the end of
    the iteration / function passes it.  A bucket that changed but is not dirty keeps its old object on the next flush: after a
    reopen the index answers from stale postings (phantom ids) although the live handle was correct."""
    cls, names, fld, tyrx, mrx = BUCKET_SPECS[which]
    n = 0
    for name in names:
        f = prog.fn(cls + "::" + name)
        for g in [f] + prog.closures_of(f):
            M = {e.block for e in g.calls_named(mrx)}
            A = [e.block for e in g.calls_named(r"dashmap::DashMap::<K, V, S>::(get_mut|entry|iter_mut)$") if "buckets" in recv_fields(g, e)]
            heads = [e.block for e in g.calls_named(r"Iterator>?::next$")]
            for b in g.live_blocks():
                for st in g.stmts(b):
                    if st[0] != "A" or not st[1].get("p"):
                        continue
                    last = [e for e in st[1]["p"] if isinstance(e, dict) and "n" in e]
                    if not (last and last[-1]["n"] == fld and re.search(tyrx, g.locals[st[1]["l"]])):
                        continue
                    n += 1
                    acc = [a for a in A if g.dominates(a, b)]
                    near = [x for x in acc if not any(y != x and g.dominates(x, y) for y in acc)]
                    encl = [h for h in heads if g.dominates(h, b) and g.can_reach([b], [h])]
                    exits = set(g.return_blocks()) | set(encl)
                    before = bool(near) and any(g.dominates(near[0], m) and g.dominates(m, b) for m in M)
                    after = bool(M) and g.must_pass(M, exits, start=b)
                    rep.ob(rule, "size-change-marks-dirty|%s::%s" % (cls.split("::")[2].split("<")[0], name), before or after,
                           "a bucket's recorded size changes here but the bucket is not marked dirty on every path (neither between the "
                           "bucket access and this write, nor afterwards before the iteration ends)", "%s:%d" % (g.file, st[3] if len(st) > 3 else g.line))
    return n
