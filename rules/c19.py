"""C19 — unreadable elements are invisible; only the control plane changes authority.  (DESIGN §4 C19)"""
import re

from lib import core, valueflow
from lib.report import CheckerFault
from . import nx

EXPLAIN = (
    "Static analysis over rustc MIR of anda_cognitive_nexus: R19.1 read choke point - every function that materialises an element from the store (get_element / element_at / elements_at) "
    "is either the read context's load/candidates (which pass admit before caching or returning, C18 R18.3) or one of the confirmed non-read-path callers; nothing else reachable from "
    "kql::execute or meta::execute reads element rows directly; the redacted view is the only view the matchers read; R19.2 control-plane isolation - the Governance mutators are enumerated "
    "from the GovernanceStore methods that reach a collection write; from Session::execute (all three arms) only the audit appends and the approval spend are reachable, none of the "
    "authority-changing mutators; an element's governance block is written only by the commit-time propagation, which is restricted to rows the transaction created; audit rows are never "
    "updated or removed; R19.3 the permission tables have no fall-through arm (clause_permissions, meta_permissions, describe_permissions); R19.4 every clause applier that stages a change "
    "calls a per-element authorization before it stages, and EffectiveAuthority::authorize evaluates inactive principal / suspended space -> explicit deny -> allows -> default deny in that order. "
    "R19.5 (governance fields not assignable) is decided under C16 R16.1. "
    "Not decided: non-interference over pairs of executions, masked-field inference, delegation attenuation arithmetic.")

GS = nx.N + "::governance::store::GovernanceStore"
CTX = nx.N + "::kql::Context::<'a>"
TX = nx.N + "::tx::Transaction"


class _Site:
    def __init__(self, block, line):
        self.block, self.line = block, line


def _sites(prog, f, rx):
    """Where `f` evaluates a call matching rx: the call itself, or - when the call sits in a closure handed to an iterator
    adaptor (`xs.iter().any(|x| pred(x))`) - the call of `f` that consumes that closure."""
    out = [_Site(e.block, e.line) for e in f.calls_named(rx)]
    for k in prog.closures_of(f):
        if k.coroutine or not k.calls_named(rx):
            continue
        for e in f.calls():
            if any(o[0] == "create" and o[1].cid == k.id for a in e.args for o in f.slice_back_op(a, through=lambda ev: True)):
                out.append(_Site(e.block, e.line))
    return out


def run(rep, tier):
    prog = nx.load()
    rep.not_decided = "non-interference (relational), masked-field inference through membership/order, delegation attenuation arithmetic, next-request effect of revocation beyond 'resolved under the lock'"
    rep.assumptions = ["rustc MIR and callee resolution", "GovernanceStore is the only holder of the governance collections"]
    writes = prog.reaching(nx.is_write)

    # ------------------------------------------------------------------ R19.1
    rep.rule("R19.1", "read choke point: element rows are materialised only by the read context (behind admit) or by confirmed non-read-path functions", floor=13)
    readers = {}
    for f in prog.fns.values():
        if f.crate != nx.N:
            continue
        for e in f.calls_named(r"Store>?::(get_element|element_at|elements_at)$"):
            readers.setdefault(nx.outer_name(prog, f), []).append(e)
    TABLE = {
        "kql::Context::<'a>::load": "the choke point itself",
        "kql::Context::<'a>::candidates": "historical candidates, admitted one by one",
        "tx::Transaction::load": "write path: the transaction's own staged copy, authorized per element (R19.4)",
        "tx::Transaction::join_classification": "commit-time classification join; reads labels only",
        "store::write::<impl store::Store>::check_same_space": "commit-time space check; returns no element data",
        "store::Store::referrers": "purge/reference tooling",
        "governance::purge::stage": "purge planning on the write path, after per-element authorization",
        "governance::element::readable": "control-plane API, evaluates may_read itself",
        "governance::element::inherited_ceiling": "control-plane API",
    }
    for r, evs in sorted(readers.items()):
        rep.saw(evs[0].fn, len(evs))
        rep.ob("R19.1", "element-reader|%s" % r, r in TABLE, "%s reads element rows from the store but is not a confirmed reader (a new read path must go through Context::load/admit)" % r, evs[0].where())
    rk = prog.reach_set([prog.fn(nx.N + "::kql::execute", body=False).id, prog.fn(nx.N + "::meta::execute", body=False).id],
                        stop=lambda n: prog.fns[n].path.startswith(nx.N + "::meta::inspect::preview"))
    on_read_path = sorted({nx.outer_name(prog, prog.fns[n]) for n in rk if n in prog.fns} & set(readers))
    ok = set(on_read_path) <= {"kql::Context::<'a>::load", "kql::Context::<'a>::candidates", "store::Store::referrers"}
    rep.ob("R19.1", "read-path-readers", ok, "element readers reachable from kql::execute / meta::execute (outside PREVIEW): %s" % on_read_path, CTX)
    # direct Collection::get on element collections from the read path
    direct = []
    for n in rk:
        f = prog.fns.get(n)
        if f is None or f.crate != nx.N:
            continue
        for e in f.calls_named(r"^anda_db::collection::Collection::(get|get_as|search|search_as)$"):
            org = {o[1].name.rsplit("::", 1)[1] for o in f.slice_back_op(e.args[0]) if o[0] == "call"}
            if org & {"concepts", "propositions", "assertions", "evidence", "activities", "elements"}:
                if nx.outer_name(prog, f) in ("store::Store::get_element", "store::Store::referrers"):
                    continue        # the primitives behind the confirmed readers
                direct.append((nx.outer_name(prog, f), e))
    rep.ob("R19.1", "no-direct-row-read", not direct, "the read path fetches element rows directly from a collection in %s" % sorted({d[0] for d in direct}), (direct[0][1].where() if direct else CTX))
    from .c18 import read_context_rules
    read_context_rules(rep, "R19.1", prog)
    ad = prog.fn(CTX + "::admit")
    rep.saw(ad, len(ad.events))
    mr = ad.calls_named(r"EffectiveAuthority::may_read$")
    red = ad.calls_named(r"governance::redact::apply$")
    ins = ad.calls_named(r"BTreeMap::<K, V, A>::insert$|HashMap::<K, V, S, A>::insert$|HashMap::<K, V, S>::insert$")
    somes = [b for b in ad.live_blocks() for st in ad.stmts(b) if st[0] == "A" and st[1]["l"] == 0 and st[2]["k"] == "agg" and st[2]["a"].get("v") == "Some"]
    okm = set()
    for e in mr:
        okm |= set(ad.result_edges(e)[0])
        # may_read answers an Option: `?` (ControlFlow edges) and `let Some(c) = .. else { return None }` (Option edges) are the same test
        okm |= {m["Some"] for (sb, adt, m) in ad.outcome_edges(e.dest.l) if adt == "core::option::Option" and "Some" in m}
    ok = bool(mr) and bool(red) and bool(ins) and bool(somes) and bool(okm) and ad.must_pass(okm, somes) and all(ad.must_pass([r.block for r in red], [i.block]) for i in ins)
    rep.ob("R19.1", "admit-decides-and-redacts|Context::admit", ok, "admit returns Some only on the permitted edge of may_read and caches the view only after redaction", ad.file + ":%d" % ad.line)
    # matchers read the cached (redacted) view, never a fresh render
    rend = []
    for n in rk:
        f = prog.fns.get(n)
        if f is None or f.crate != nx.N:
            continue
        for e in f.calls_named(r"^anda_cognitive_nexus::view::render$"):
            o = nx.outer_name(prog, f)
            if o not in ("kql::Context::<'a>::admit",):
                rend.append((o, e))
    rep.ob("R19.1", "only-redacted-views", not [r for r in rend if r[0].startswith("kql::")],
           "the KQL read path renders an unredacted view outside admit in %s" % sorted({r[0] for r in rend if r[0].startswith("kql::")}), (rend[0][1].where() if rend else CTX))

    # ------------------------------------------------------------------ R19.2
    rep.rule("R19.2", "control-plane isolation: no KIP command reaches an authority-changing Governance mutator; governance blocks only by commit-time propagation on new rows; audit append-only", floor=12)
    muts = {}
    for f in prog.fns.values():
        if f.crate == nx.N and f.impl_adt == GS and f.kind == "AssocFn" and f.vis in ("pub", "crate") and f.id in writes:
            muts[f.path.rsplit("::", 1)[1]] = f
    rep.note("governance_mutators", sorted(muts))
    APPEND_ONLY = {"record_mutation", "record_decision"}
    SPEND = {"consume_approval"}
    INFRA = {"flush", "reopen", "open"}
    se = prog.fn(nx.SESSION_EXEC, body=False)
    rs = prog.reach_set([se.id])
    authority_changing = sorted(set(muts) - APPEND_ONLY - SPEND - INFRA)
    rep.ob("R19.2", "mutators-enumerated", len(authority_changing) >= 10, "anchor: authority-changing Governance mutators found: %s" % authority_changing, GS)
    for name in authority_changing:
        f = muts[name]
        reach = f.id in rs
        path = prog.find_path(se.id, lambda n, g: n == f.id) if reach else None
        rep.ob("R19.2", "unreachable-from-session|%s" % name, not reach,
               "a KIP command can reach GovernanceStore::%s: %s" % (name, " -> ".join(nx.short(p) for p in (path or [])[:12])), f.file + ":%d" % f.line)
    # governance block writers
    gm = [f for f in prog.fns.values() if f.path == nx.N + "::store::Element::governance_mut"]
    if not gm:
        raise CheckerFault("anchor missing: Element::governance_mut")
    gcallers = {nx.outer_name(prog, f) for (f, e) in nx.callers_of(prog, {gm[0].id})}
    on_session = {c for c in gcallers if any(nx.outer_name(prog, prog.fns[n]) == c for n in rs if n in prog.fns)}
    rep.ob("R19.2", "governance-block-writers", on_session <= {"tx::Transaction::propagate_governance"} and "tx::Transaction::propagate_governance" in gcallers,
           "functions reachable from a KIP command that obtain a mutable governance block: %s" % sorted(on_session), gm[0].file + ":%d" % gm[0].line)
    pg = prog.fn(TX + "::propagate_governance")
    rep.saw(pg, len(pg.events))
    gme = pg.calls_named(r"Element::governance_mut$")
    isnew = []
    for b in pg.live_blocks():
        for st in pg.stmts(b):
            if st[0] == "A" and st[2]["k"] == "use":
                pl = st[2]["o"].get("c") or st[2]["o"].get("m")
                if pl and any(isinstance(x, dict) and x.get("n") == "is_new" for x in (pl.get("p") or [])):
                    isnew.append((b, st[1]["l"]))
    ok = False
    for (b, l) in isnew:
        t = pg.term(b)
        der = pg.derived_locals([l], include_call_results=False)
        for bb in pg.live_blocks():
            tt = pg.term(bb)
            if tt["k"] == "switch":
                p = core.op_place(tt["o"])
                if p is not None and p.l in der and pg.dominates(b, bb):
                    vals = dict(tt["v"])
                    # which edge means is_new == true depends on an intervening Not
                    neg = any(s[0] == "A" and s[1]["l"] == p.l and s[2]["k"] == "un" for s in pg.stmts(bb) + pg.stmts(b))
                    false_t = vals.get("0")
                    true_t = tt["else"]
                    new_edge, old_edge = (false_t, true_t) if neg else (true_t, false_t)
                    if gme and old_edge is not None and not any(g.block in pg.reachable_from([old_edge], avoid=[b]) for g in gme) and any(g.block in pg.reachable_from([new_edge]) for g in gme):
                        ok = True
    rep.ob("R19.2", "propagation-only-on-new-rows|propagate_governance", ok and bool(gme), "the governance block is touched only on the is_new edge (an existing element's block is never rewritten by a command)", pg.file + ":%d" % pg.line)
    # audit collection: append only
    audit_prims = {}
    for f in prog.fns.values():
        if f.crate != nx.N:
            continue
        for e in f.calls_named(r"^anda_db::collection::Collection::(add|add_from|update|remove)$"):
            flds = f.slice_fields(e.args[0], through=lambda ev: ev.callee in core.TRANSPARENT or "ReopenableCollection" in (ev.callee or "") or (ev.callee or "").endswith("::get"))
            if "audit" in flds:
                audit_prims.setdefault(e.callee.rsplit("::", 1)[1], set()).add(nx.outer_name(prog, f))
    rep.note("audit_primitives", {k: sorted(v) for k, v in audit_prims.items()})
    rep.ob("R19.2", "audit-append-only", bool(audit_prims.get("add_from") or audit_prims.get("add")) and not audit_prims.get("update") and not audit_prims.get("remove"),
           "audit rows are only appended (update: %s, remove: %s)" % (sorted(audit_prims.get("update", ())), sorted(audit_prims.get("remove", ()))), GS)

    # ------------------------------------------------------------------ R19.3
    rep.rule("R19.3", "permission tables have no fall-through arm: every clause / meta command / describe target maps to an explicit permission list", floor=3)
    for path, adt in ((nx.N + "::governance::gate::clause_permissions", "anda_kip::ast::MutationClause"), (nx.N + "::governance::gate::meta_permissions", "anda_kip::ast::MetaCommand"),
                      (nx.N + "::governance::gate::describe_permissions", "anda_kip::ast::DescribeTarget")):
        f = prog.fn(path)
        rep.saw(f, len(f.events))
        ok = False
        detail = ""
        for (sb, place, a, m, els) in f.variant_edges():
            if a == adt:
                if f.term(els)["k"] == "unreachable":
                    ok = True          # every variant listed explicitly
                elif path.endswith("clause_permissions"):
                    ok = False
                    detail = "clause_permissions has a fall-through arm"
                else:
                    # a fall-through arm is tolerated only if it still demands a permission (never the empty list)
                    t = f.term(sb)
                    explicit = {tb for _, tb in t["v"]}
                    r = f.reachable_from([els], avoid={sb} | explicit)
                    empty = [e for e in f.calls_named(r"Vec::<T>::new$") if e.block in r]
                    ok = not empty
                    detail = "the fall-through arm yields an empty permission list" if empty else ""
        rep.ob("R19.3", "no-permissionless-fallthrough|%s" % path.rsplit("::", 1)[1], ok,
               detail or "%s: every variant is listed, or the fall-through arm still demands a permission" % path.rsplit("::", 1)[1], f.file + ":%d" % f.line)

    # ------------------------------------------------------------------ R19.4
    rep.rule("R19.4", "per-element authorization before staging a change; authorize order: inactive/suspended -> explicit deny -> allows -> default deny", floor=12)
    AUTH_RX = r"Transaction::(authorize_element|authorize_created|authorize_new)$|kml::select::Targets::authorized$|governance::purge::stage$"
    STAGE_RX = r"Transaction::(mark_changed|stage_new|stage_purge)$"
    reach_kml = prog.reach_set([prog.fn(nx.N + "::kml::execute", body=False).id])
    helper_need = []
    for f in prog.fns.values():
        if f.crate != nx.N or f.id not in reach_kml:
            continue
        st = f.calls_named(STAGE_RX)
        if not st:
            continue
        rep.saw(f, len(st))
        au = f.calls_named(AUTH_RX)
        oka = set()
        for a in au:
            o, r = f.result_edges(a)
            oka |= set(o)
        name = nx.outer_name(prog, f)
        ITER = lambda ev: ev.callee in core.TRANSPARENT or ev.callee == core.TRY_BRANCH or "into_iter" in (ev.callee or "") or (ev.callee or "").endswith("Iterator::next")
        for s in st:
            # (a) the staged id derives from the list of ids an authorization returned
            from_auth = False
            if len(s.args) > 1:
                for o in f.slice_back_op(s.args[1], through=ITER):
                    if o[0] == "call" and re.search(r"kml::select::Targets::authorized(::\{closure#0\})?$", o[1].name):
                        from_auth = True
            # (b) or a successful authorization precedes it on every feasible path
            ok = from_auth or (bool(oka) and valueflow.must_pass_ps(f, oka, [s.block]))
            if not ok and not au:
                helper_need.append((f, s))
                continue
            rep.ob("R19.4", "authorize-before-stage|%s|%s" % (name, s.name.rsplit("::", 1)[1]), ok,
                   "%s stages a change (%s) that is not preceded on every path by a successful per-element authorization" % (name, s.name.rsplit("::", 1)[1]), s.where())
    for (f, s) in helper_need:
        # a helper without its own authorization: every caller authorizes before calling it
        o = prog.outer_fn(f)
        callers = nx.callers_of(prog, {o.id})
        good = bool(callers)
        for (g, e) in callers:
            au = g.calls_named(AUTH_RX)
            oka = set()
            for a in au:
                oka |= set(g.result_edges(a)[0])
            if not (oka and valueflow.must_pass_ps(g, oka, [e.block])):
                good = False
        rep.ob("R19.4", "authorize-before-stage|%s|%s|via-callers" % (nx.outer_name(prog, f), s.name.rsplit("::", 1)[1]), good,
               "%s stages a change without authorizing; not every caller authorizes before calling it" % nx.outer_name(prog, f), s.where())
    az = prog.fn(nx.N + "::governance::decision::EffectiveAuthority::authorize")
    rep.saw(az, len(az.events))
    # order of the decision: status reads -> deny loop (statement_matches under effect == "deny") -> allows -> final
    denyc = [e for e in az.calls() if e.cid in {k.id for k in prog.closures_of(prog.fn(nx.N + "::governance::decision::EffectiveAuthority::authorize", body=False))} and "deny" in (az.var_name(core.op_place(e.args[0]).l if core.op_place(e.args[0]) else -1) or "deny")]
    sm = _sites(prog, az, r"EffectiveAuthority::statement_matches$")
    cm_ = _sites(prog, az, r"decision::candidate_matches$")
    status_reads = _field_read_blocks(az, "status")
    ok = bool(sm) and bool(cm_) and bool(status_reads) and len(sm) >= 2
    if ok:
        first_sm = min(sm, key=lambda e: e.line)
        last_sm = max(sm, key=lambda e: e.line)
        ok = all(az.must_pass(status_reads, [e.block]) for e in sm + cm_) and not az.can_reach([c.block for c in cm_], [first_sm.block]) and az.dominates(first_sm.block, cm_[0].block) is not None
        ok = ok and not az.can_reach([last_sm.block], [first_sm.block])
    rep.ob("R19.4", "decision-order|EffectiveAuthority::authorize", ok, "principal/space status is tested first, explicit deny statements before any allow candidate is collected", az.file + ":%d" % az.line)
    # default deny: when no candidate is chosen the result is the deny closure
    none_edges = [m["None"] for (sb, place, adt, m, els) in az.variant_edges() if adt == "core::option::Option" and "None" in m and "Candidate" in az.locals[place.l]]
    ok = bool(none_edges)
    for t in none_edges:
        r = az.reachable_from([t])
        aggs = [st for b in r for st in az.stmts(b) if st[0] == "A" and st[2]["k"] == "agg" and (st[2]["a"].get("def") or "").endswith("decision::Decision")]
        if any(st[2]["a"]["v"] in ("Allow", "AllowWithConstraints") for st in aggs):
            pass
    allow_aggs = [b for b in az.live_blocks() for st in az.stmts(b) if st[0] == "A" and st[2]["k"] == "agg" and (st[2]["a"].get("def") or "").endswith("governance::Decision") and st[2]["a"]["v"] in ("Allow", "AllowWithConstraints")]
    some_edges = [m["Some"] for (sb, place, adt, m, els) in az.variant_edges() if adt == "core::option::Option" and "Some" in m and "Candidate" in az.locals[place.l]]
    ok = bool(allow_aggs) and bool(some_edges) and all(any(az.dominates(s, b) for s in some_edges) for b in allow_aggs)
    rep.ob("R19.4", "default-deny|EffectiveAuthority::authorize", ok, "an allow decision is built only on the edge where some candidate granted the permission", az.file + ":%d" % az.line)
    # ------------------------------------------------------------------ R19.5 only live authority rows contribute
    rep.rule("R19.5", "authority resolution uses live rows only: every Principal / Delegation / Grant row fetched one at a time in decision.rs has *its own* "
                      "status compared with status::ACTIVE; the live list loaders filter status = ACTIVE in every query", floor=8)
    rows = {a for a, d in prog.adts.items() if re.search(r"::(PrincipalRow|DelegationRow|GrantRow)$", a)}
    if len(rows) < 3:
        raise CheckerFault("governance row types not found: %r" % sorted(rows))

    def _const_defs(f, o):
        return {x[1].get("def") for x in f.slice_back_op(o) if x[0] == "const" and x[1].get("def")}
    nload = 0
    for f in prog.fns.values():
        if not f.file.endswith("governance/decision.rs"):
            continue
        for e in f.calls():
            if e.kind == "ref" or not re.search(r"GovernanceStore", e.name or ""):
                continue
            src = e.poll_dest if e.poll_dest is not None else e.dest
            if src is None:
                continue
            ty = f.locals[src.l]
            hit = [r for r in rows if r in ty]
            if not hit or "alloc::vec::Vec<" in ty:
                continue
            nload += 1
            rep.saw(f, 1)
            der = f.derived_locals([src.l])
            ok = False
            for c in f.calls():
                if not (re.search(r"PartialEq.*::(eq|ne)$", c.name or "") and len(c.args) >= 2):
                    continue
                for i in (0, 1):
                    p_ = core.op_place(c.args[i])
                    if p_ is None or "status" not in f.slice_fields(c.args[i]):
                        continue
                    from_row = p_.l in der or any(o[0] == "call" and o[1] is e for o in f.slice_back_op(c.args[i]))
                    if from_row and any((d or "").endswith("status::ACTIVE") for d in _const_defs(f, c.args[1 - i])):
                        ok = True
            if not ok:
                # the row may be handed to a closure that makes the comparison (`.is_some_and(|row| row.status == ACTIVE)`): a call that
                # receives a value derived from the row together with a closure of this function whose parameter's status is compared
                for c in f.calls():
                    if not any(core.op_place(a) is not None and core.op_place(a).l in der | {src.l} for a in c.args):
                        continue
                    for a in c.args:
                        for o in f.slice_back_op(a):
                            k_ = prog.fns.get(o[1].cid) if o[0] == "create" else None
                            if k_ is None:
                                continue
                            for q in k_.calls():
                                if re.search(r"PartialEq.*::(eq|ne)$", q.name or "") and len(q.args) >= 2 and any(
                                        "status" in k_.slice_fields(q.args[i_]) and any((d or "").endswith("status::ACTIVE") for d in _const_defs(k_, q.args[1 - i_]))
                                        for i_ in (0, 1)):
                                    ok = True
            rep.ob("R19.5", "row-status-checked|%s|%s" % (prog.outer_fn(f).path.rsplit("::", 1)[1], e.name.rsplit("::", 1)[1]), ok,
                   "the %s fetched here contributes to an authority decision without its own status being compared with status::ACTIVE "
                   "(a revoked / suspended row would keep conferring authority)" % hit[0].rsplit("::", 1)[1], e.where())
    if nload < 4:
        rep.fault("R19.5: only %d single-row loads found in decision.rs" % nload)
    for lname in ("grants_for", "delegations_to", "bindings_of", "groups_of"):
        cands = [f for f in prog.fns.values() if re.search(r"GovernanceStore::%s$" % lname, f.path)]
        if not cands:
            rep.ob("R19.5", "loader-filters-active|%s" % lname, False, "anchor: live list loader %s not found" % lname, "governance/store.rs")
            continue
        f = prog.fn(cands[0].path)
        bodies = [f] + prog.closures_of(f)
        nq = sum(len(b.calls_named(r"GovernanceStore::all_rows$")) for b in bodies)
        nact = 0
        for b in bodies:
            for blk in b.live_blocks():
                ops = [o for st in b.stmts(blk) if st[0] == "A" for o in core._rvalue_operands(st[2])]
                t = b.term(blk)
                if t["k"] == "call":
                    ops += t["args"]
                for o in ops:
                    k = core.op_const(o)
                    if k and (k.get("def") or "").endswith("status::ACTIVE"):
                        nact += 1
        rep.saw(f, len(f.events))
        rep.ob("R19.5", "loader-filters-active|%s" % lname, nq >= 1 and nact >= nq,
               "%s runs %d row queries but filters status = ACTIVE in %d of them" % (lname, nq, nact), f.file + ":%d" % f.line)
    # a suspended / revoked principal holds nothing - ownership included: the delegation branch of resolve_delegation confers on
    # `parent.is_owner`, so an owner flag that survives suspension keeps every delegation the owner ever made alive
    from lib import valueflow as _vf
    EA = nx.N + "::governance::decision::EffectiveAuthority"
    nown = 0
    for f in prog.fns.values():
        if not f.file.endswith("governance/decision.rs"):
            continue
        sites = [(b, st) for b in f.live_blocks() for st in f.stmts(b) if st[0] == "A" and st[2]["k"] == "agg" and st[2]["a"].get("def") == EA]
        live = [l for l in range(len(f.locals)) if f.var_name(l) == "live" and f.locals[l] == "bool"]
        if not sites or not live:
            continue
        try:
            at = _vf.analyse(f)
        except RuntimeError:
            at = None
        for (b, st) in sites:
            nown += 1
            rep.saw(f, 1)
            idx = st[2]["a"]["fields"].index("is_owner") if "is_owner" in st[2]["a"].get("fields", []) else None
            p_ = core.op_place(st[2]["ops"][idx]) if idx is not None else None
            ok = False
            if at is not None and p_ is not None and not p_.p:
                ok = bool(at.get(b))
                for envf in at.get(b, ()):
                    env = dict(envf)
                    _vf._apply_stmts(f, {"s": [x for x in f.blocks[b]["s"] if x is not st and f.blocks[b]["s"].index(x) < f.blocks[b]["s"].index(st)], "t": f.blocks[b]["t"]}, env)
                    if not (env.get(p_.l) == 0 or any(env.get(l) == 1 for l in live)):
                        ok = False
            rep.ob("R19.5", "owner-only-while-live|%s" % prog.outer_fn(f).path.rsplit("::", 1)[1], ok,
                   "EffectiveAuthority.is_owner can be true on a path where the principal is not active (`live` is false or was not consulted): "
                   "delegations made by a suspended owner keep conferring", "%s:%d" % (f.file, st[3] if len(st) > 3 else f.line))
    if nown < 2:
        rep.fault("R19.5: only %d EffectiveAuthority constructions with a `live` flag found" % nown)

    # ------------------------------------------------------------------ R19.7 what the index knows is not what the caller may know
    rep.rule("R19.7", "the index answers over stored rows, masked fields and unreadable elements included: ids it returns leave a read function only after "
                      "Context::load; value constraints pushed into it are decided again on the redacted view; a search window is refilled after the visibility filter", floor=3)
    # (a) ids from the index are loaded before they are returned
    VEC_ID = "alloc::vec::Vec<anda_cognitive_nexus::id::ElementId>"
    na = 0
    for f in prog.fns.values():
        if "/projection/" not in f.file:
            continue
        body = f
        if VEC_ID not in body.locals[0] or "Result<" not in body.locals[0]:
            continue
        cands = f.calls_named(r"Context.*::candidates$")
        if not cands:
            continue
        na += 1
        rep.saw(f, len(cands))
        direct = []
        for b in f.live_blocks():
            for st in f.stmts(b):
                if st[0] == "A" and st[1]["l"] == 0 and not st[1].get("p") and st[2]["k"] == "agg" and st[2]["a"].get("def") == "core::result::Result" \
                        and st[2]["a"].get("v") == "Ok":
                    org = f.slice_back_op(st[2]["ops"][0], through=lambda ev: ev.callee in core.TRANSPARENT)
                    if any(o[0] == "call" and re.search(r"Context.*::candidates(::\{closure#0\})?$", o[1].name or "") for o in org):
                        direct.append("%s:%d" % (f.file, st[3] if len(st) > 3 else f.line))
        rep.ob("R19.7", "candidate-ids-loaded-before-return|%s" % prog.outer_fn(f).path.rsplit("::", 1)[1], not direct,
               "the ids the index returned are handed back as they are, without Context::load: a Proposition the caller may not read is listed "
               "(BELIEF SLOT) or becomes a rival (BELIEF)", direct[0] if direct else f.file + ":%d" % f.line)
    if na < 1:
        rep.fault("R19.7: no projection function returning candidate ids found")
    # (b) match_element: a constraint pushed into the index is decided again on the redacted view
    me = [f for f in prog.fns.values() if f.path.endswith("::match_element::{closure#0}")]
    if not me:
        raise CheckerFault("anchor missing: match_element")
    me = me[0]
    rep.saw(me, len(me.events))
    heads = [e.block for e in me.calls_named(r"Iterator>?::next$")]
    pushes = [e for e in me.calls_named(r"alloc::vec::Vec::<T, A>::push$")]
    fpush = [e for e in pushes if any(o[0] == "call" and (o[1].name or "").endswith("eq_field") for o in me.slice_back_op(e.args[1], through=lambda ev: False))
             and any(me.dominates(h, e.block) and me.can_reach([e.block], [h]) for h in heads)]
    ppush = {e.block for e in pushes if "(alloc::string::String, anda_cognitive_nexus::kql::matching::Slot)" in me.locals[core.op_place(e.args[0]).l]
             or "Slot)" in me.locals[core.op_place(e.args[0]).l]} if pushes else set()
    bad = []
    for e in fpush:
        encl = [h for h in heads if me.dominates(h, e.block) and me.can_reach([e.block], [h])]
        if not me.must_pass(ppush, encl, start=e.block):
            bad.append(e)
    rep.ob("R19.7", "pushdown-redecided-on-view|match_element", bool(fpush) and not bad,
           "a matcher value that has an index column is pushed into the index filter and never compared with the redacted view: for a reader for whom the "
           "field is masked, which rows come back tells whether the guessed value was right", bad[0].where() if bad else me.file + ":%d" % me.line)
    # (c) SEARCH: the window is refilled when the visibility filter emptied it
    se = [f for f in prog.fns.values() if f.path.endswith("meta::inspect::search::{closure#0}")]
    if not se:
        raise CheckerFault("anchor missing: meta::inspect::search")
    se = se[0]
    rep.saw(se, len(se.events))
    sa = se.calls_named(r"::search_advanced$")
    outer = [e.block for e in se.calls_named(r"Iterator>?::next$") if "ElementKind" in ((e.finfo or {}).get("self") or "") or "(anda_kip" in ((e.finfo or {}).get("self") or "")]
    refill = any(s_.block in se.reachable_from(se.succ[s_.block], avoid=set(outer)) for s_ in sa)
    rep.ob("R19.7", "search-window-refilled|search", bool(sa) and bool(outer) and refill,
           "SEARCH asks the index once for a fixed multiple of the page and filters afterwards: hits the caller may not read crowd the visible ones out "
           "of the page (an empty page then counts the hidden matches)", sa[0].where() if sa else se.file + ":%d" % se.line)

    # ------------------------------------------------------------------ R19.6 page arithmetic over what the caller may see
    rep.rule("R19.6", "journal readers (HISTORY / CHANGES) count and page the rows only after the visibility filter: a total or cursor computed over the "
                      "unfiltered journal tells a restricted reader how many transactions (and whether an element) exist that it cannot read", floor=1)
    nvis = 0
    for f in prog.fns.values():
        if "/meta/" not in f.file:
            continue
        vis = f.calls_named(r"::visible_changes$")
        if not vis:
            continue
        nvis += 1
        rep.saw(f, len(vis))
        vrows = set()
        for v in vis:
            for a in v.args:
                vrows |= {o[1] if o[0] == "arg" else id(o[1]) for o in f.slice_back_op(a, through=lambda ev: ev.callee in core.TRANSPARENT)
                          if o[0] in ("arg", "call")}
        lens = []
        for e in f.calls_named(r"alloc::vec::Vec::<T, A>::len$|<\[T\]>::len$|core::slice::<impl \[T\]>::len$"):
            src = {o[1] if o[0] == "arg" else id(o[1]) for o in f.slice_back_op(e.args[0], through=lambda ev: ev.callee in core.TRANSPARENT)
                   if o[0] in ("arg", "call")}
            if src & vrows:
                lens.append(e)
        early = [e for e in lens if not any(f.must_pass([v.block], [e.block]) for v in vis)]
        if not lens:
            continue        # filters, but counts nothing (a single row is rendered): no total or cursor to leak
        rep.ob("R19.6", "count-after-visibility-filter|%s" % prog.outer_fn(f).path.rsplit("::", 1)[1], not early,
               "the number of journal rows is taken before visible_changes removed what the caller may not read (it feeds the page cursor / total)",
               early[0].where() if early else vis[0].where())
    if nvis < 1:
        rep.fault("R19.6: no journal reader calling visible_changes found")

    # ------------------------------------------------------------------ R19.8 the rest of what the C19 audit found
    rep.rule("R19.8", "a journal row leaves a META function only through the visibility filter; an allow from a policy statement honours its classification "
             "ceiling as a Grant does; the Principal in the middle of a delegation chain is looked up; the stub of a purged element keeps its classification", floor=4)
    # (a) every function under meta/ that renders a journal row (TransactionRow -> entry) passes visible_changes first
    H = nx.N + "::meta::history"
    renderers = []
    for f in prog.fns.values():
        if not f.path.startswith(H + "::") or f.kind == "Closure" and False:
            continue
        body_ = f
        ent = [e for e in body_.calls_named(r"meta::history::entry$")]
        if not ent or body_.path.endswith("::entry"):
            continue
        outer = prog.outer_fn(body_)
        if outer.path.rsplit("::", 1)[1] in ("visible_changes",):
            continue
        renderers.append((outer, body_, ent))
    seen_r = set()
    for outer, body_, ent in renderers:
        name_ = outer.path.rsplit("::", 1)[1]
        if name_ in seen_r:
            continue
        seen_r.add(name_)
        bodies = [g for (o_, g, _) in renderers if o_ is outer]
        vis_ids = {g.id for g in prog.fns.values() if g.path == H + "::visible_changes"}
        whole = [prog.async_body(outer) or outer] + list(prog.closures_of(prog.async_body(outer) or outer))
        filt = any(set(prog.callee_nodes(e)) & vis_ids or any(prog.reach_set([n]) & vis_ids for n in prog.callee_nodes(e) if n in prog.fns)
                   for g in whole for e in g.calls())
        rep.saw(outer, 1)
        rep.ob("R19.8", "journal-row-rendered-after-visibility-filter|%s" % name_, filt,
               "meta::history::%s renders a journal row without visible_changes: DESCRIBE TRANSACTION names every element a transaction changed, hidden ones "
               "included, to a reader for whom HISTORY SPACE hides them (transaction ids are `{space}#{seq}` and can be enumerated)" % name_,
               ent[0].where())
    if len(seen_r) < 3:
        raise CheckerFault("anchor missing: journal renderers in meta::history (found %s)" % sorted(seen_r))
    # (b) authorize: the classification ceiling is consulted on the allow-statement path too
    D = nx.N + "::governance::decision"
    az = [f for f in prog.fns.values() if f.path.endswith("EffectiveAuthority::authorize") and f.path.startswith(D)]
    rc = {f.id for f in prog.fns.values() if f.path == D + "::reaches_classification"}
    cm = [f for f in prog.fns.values() if f.path == D + "::candidate_matches"]
    if not az or not rc or not cm:
        raise CheckerFault("anchor missing: authorize / reaches_classification / candidate_matches")
    azb = prog.async_body(az[0]) or az[0]
    sm = [e for e in azb.calls_named(r"EffectiveAuthority::statement_matches$")]
    direct = [e for e in azb.calls() if set(prog.callee_nodes(e)) & rc]
    via_sm = any(prog.reach_set([n]) & rc for e in sm for n in prog.callee_nodes(e) if n in prog.fns)
    grants_ok = bool(prog.reach_set([cm[0].id]) & rc)
    rep.ob("R19.8", "allow-statement-honours-classification-ceiling|authorize", grants_ok and (bool(direct) or via_sm),
           "candidate_matches (Grants, Delegations) applies reaches_classification, the policy-statement path of authorize never does: a reader allowed only by a "
           "statement with max_classification: public reads `Secret Note`", (sm[0].where() if sm else azb.file))
    # (c) resolve_delegation: on every path to Some(candidate) the delegator was resolved as a Principal (liveness)
    rd = [f for f in prog.fns.values() if f.path == D + "::resolve_delegation"]
    if not rd:
        raise CheckerFault("anchor missing: resolve_delegation")
    rdb = prog.async_body(rd[0]) or rd[0]
    rep.saw(rdb, len(rdb.events))
    lookups = [e for e in rdb.calls_named(r"GovernanceStore::find_principal$", r"EffectiveAuthority::resolve_at_depth$")]
    somes = [b for b in rdb.live_blocks() for st in rdb.stmts(b)
             if st[0] == "A" and st[2]["k"] == "agg" and st[2]["a"].get("v") == "Some" and "Candidate" in rdb.locals[st[1]["l"]]]
    lb = {b for e in lookups for b in (e.block, e.call_block)}
    rep.ob("R19.8", "delegator-resolved-as-principal|resolve_delegation", bool(somes) and bool(lb) and all(rdb.must_pass(lb, [b]) for b in somes),
           "a chained delegation (parent_delegation set) yields a candidate without ever loading the delegator's Principal row: C, delegate of a suspended B in "
           "A -> B -> C, still reads", (rdb.file + ":%d" % rdb.term(somes[0]).get("ln", rdb.line)) if somes else rdb.file)
    # (d) the purge stub's governance block is built from the previous one
    st_ = [f for f in prog.fns.values() if f.path == nx.N + "::governance::purge::stub"]
    if not st_:
        raise CheckerFault("anchor missing: governance::purge::stub")
    sb_ = st_[0]
    rep.saw(sb_, len(sb_.events))
    # every row aggregate of the stub: the operand stored into its `governance` field derives from a read of the previous row's governance
    gov_reads = _field_read_blocks(sb_, "governance")
    n_rows = sum(1 for b in sb_.live_blocks() for st in sb_.stmts(b) if st[0] == "A" and st[2]["k"] == "agg" and (st[2]["a"].get("def") or "").endswith("Row"))
    rep.ob("R19.8", "purge-stub-keeps-classification|stub", n_rows >= 5 and len(gov_reads) >= n_rows,
           "the stub of a purged element gets a fresh Governance block {purged, content_digest} and nothing of the previous one is read: a `secret` element's stub falls "
           "back to the Space default classification and FIND(?c) WHERE { ?c CONCEPT {id: \"C-1\", state: \"purged\"} } hands it to a reader with an `internal` ceiling",
           sb_.file + ":%d" % sb_.line)
    # (e) a past coordinate is not a way around the present's authorization: where the read context loads a historical row
    #     (element_at / elements_at), the row the element has *now* is fetched and put to may_read before the historical one is admitted
    K = nx.N + "::kql"
    for fname, hist_rx in (("load", r"Store>?::element_at$"), ("candidates", r"Store>?::elements_at$")):
        cands_ = [f for f in prog.fns.values() if re.search(r"kql::.*Context.*::%s$" % fname, f.path) and f.kind != "Closure"]
        if not cands_:
            raise CheckerFault("anchor missing: kql Context::%s" % fname)
        g = prog.async_body(cands_[0]) or cands_[0]
        rep.saw(g, len(g.events))
        hist = g.calls_named(hist_rx)
        adm = g.calls_named(r"Context.*::admit$")
        if not hist:
            raise CheckerFault("anchor missing: historical load in Context::%s" % fname)
        # (no admit call at all after the historical load is a violation, not a missing anchor: `late_adm` is then empty)
        present = [e for e in g.calls_named(r"Store>?::get_element$") if any(g.dominates(h.block, e.block) and h.block != e.block for h in hist)]
        # (the probe may sit in a small helper that was made transparent: position, not data flow, ties the decision to the fetch)
        judged = [m_ for m_ in g.calls_named(r"EffectiveAuthority::may_read$") if any(g.dominates(pr.block, m_.block) for pr in present)]
        # every path to admit fetches the present row (when that fetch fails there is no present row to judge); the decision on it exists
        pb = {b for e in present for b in (e.block, e.call_block)}
        late_adm = [a for a in adm if any(g.can_reach([h.block], [a.block]) for h in hist)]     # (load admits both routes at one site)
        # start where a historical row is in hand: the Some edge of the Option the single-row loader answered (a None is admitted as None)
        starts = []
        for h in hist:
            somes_ = [m_["Some"] for (sb_, pl_, adt_, m_, els_) in g.variant_edges()
                      if adt_ == "core::option::Option" and "Some" in m_ and m_["Some"] != els_ and g.dominates(h.block, sb_)
                      and "Element" in g.locals[pl_.l] and not any(g.dominates(pr.block, sb_) for pr in present)
                      and any(g.can_reach([m_["Some"]], [a.block]) for a in late_adm)]
            starts.append(somes_[:1] if fname == "load" and somes_ else [h.block])
        ok = bool(present) and bool(judged) and bool(late_adm) and all(
            g.must_pass(pb, [a.block], start=st0) for sts in starts for st0 in sts for a in late_adm if g.can_reach([st0], [a.block]))
        rep.ob("R19.8", "past-coordinate-judged-by-present-row|%s" % fname, ok,
               "Context::%s hands the historical row to admit without fetching the element's present row and putting it to may_read: an element raised to `secret` "
               "after seq 1 is still returned by AS OF SEQ 1 to a reader whose ceiling is `internal` (the code's own comment says a past coordinate is not a way "
               "around the present's authorization)" % fname, hist[0].where())
    return rep.finish(EXPLAIN)


def _field_read_blocks(f, field):
    out = set()
    for b in f.live_blocks():
        for st in f.stmts(b):
            if st[0] != "A":
                continue
            places = [o.get("c") or o.get("m") for o in core._rvalue_operands(st[2])]
            if st[2]["k"] in ("ref", "cfd"):
                places.append(st[2]["p"])
            for pl in places:
                if pl and any(isinstance(e, dict) and e.get("n") == field for e in (pl.get("p") or [])):
                    out.add(b)
    return out
