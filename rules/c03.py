"""C03 — filters follow set algebra; a bounded page is an end of the full result.  (DESIGN §4 C03)

Decides the page-end clause only: `limit` may cut a scan only where the scan runs in id order."""
import re

from lib import core, valueflow
from lib.report import CheckerFault
from . import anda

EXPLAIN = (
    "Static analysis over rustc MIR of anda_db::collection: R03.1 the `limit` parameter of the two filter evaluators never flows into a "
    "callback (closure) - in particular not into the one handed to the key-ordered B-tree scan, where an early stop keeps the first `limit` ids "
    "in key order; R03.2 recursive operand evaluation passes the constant 0 (unbounded) and every limit-controlled early exit sits in a loop whose "
    "iterator is the id-ordered set (or the locally sorted+deduplicated id list); R03.3 every success path from the filter evaluation to a return "
    "passes ScanOrder::truncate / sort_unstable, and the two public entry points pass the constant direction; R03.4 complexity validation precedes evaluation. "
    "Not decided: value-level set algebra (Eq/Between/Include semantics), relevance fusion order.")

FBW = anda.COLL + "::filter_by_field_with"
FBI = anda.COLL + "::filter_by_id"


def limit_param(f):
    """The single `usize` parameter (the scan bound) of a filter evaluator."""
    ps = [l for l in range(1, f.argc + 1) if f.locals[l] == "usize"]
    if len(ps) != 1:
        raise CheckerFault("anchor drift: %s has %d usize parameters (expected exactly the scan bound)" % (f.path, len(ps)))
    return ps[0]


def closure_reads_upvar(prog, clos, names, seen=None):
    """Sites in closure `clos` (or closures it creates and hands the value to) that read a captured
    variable whose name is in `names`.  Returns list of (fn, line)."""
    out = []
    if seen is None:
        seen = set()
    if clos.id in seen:
        return out
    seen.add(clos.id)
    tainted = set()
    for b in clos.live_blocks():
        for st in clos.stmts(b):
            if st[0] != "A":
                continue
            for pl in _places_read(st[2]):
                if pl["l"] == 1 and any(isinstance(e, dict) and e.get("n") in names for e in (pl.get("p") or [])):
                    out.append((clos, st[3] if len(st) > 3 else 0))
                    tainted.add(st[1]["l"])
        t = clos.term(b)
        if t["k"] == "call":
            for a in t["args"]:
                p = a.get("c") or a.get("m")
                if p and p["l"] == 1 and any(isinstance(e, dict) and e.get("n") in names for e in (p.get("p") or [])):
                    out.append((clos, t.get("ln", 0)))
    # nested closures capturing the tainted value
    if tainted:
        der = clos.derived_locals(list(tainted))
        for e in clos.creates():
            for i, o in enumerate(e.ops):
                p = core.op_place(o)
                if p is not None and p.l in der and e.cid in prog.fns:
                    inner = prog.fns[e.cid]
                    if i < len(inner.upvars):
                        out += closure_reads_upvar(prog, inner, {inner.upvars[i]["n"]}, seen)
    return out


def _places_read(rv):
    out = []
    for o in core._rvalue_operands(rv):
        p = o.get("c") or o.get("m")
        if p:
            out.append(p)
    if rv["k"] in ("ref", "rawptr", "cfd", "discr"):
        out.append(rv["p"])
    return out


ITER_THROUGH = re.compile(
    r"(IntoIterator::into_iter|Iterator::rev|Box::<T>::new|BTreeSet::<T, A>::(iter|range)|Deref::deref|DerefMut::deref_mut|"
    r"lock_api::rwlock::RwLock::<R, T>::read|Iterator::by_ref|Iterator::copied|Iterator::cloned)$")


def run(rep, tier):
    prog = anda.load()
    rep.not_decided = "value-level set algebra, relevance fusion order, candidate-restricted search semantics"
    rep.assumptions = ["rustc MIR and callee resolution", "BTreeSet iterates in ascending key order", "sort_unstable+dedup yields an ascending duplicate-free list"]

    rep.rule("R03.1", "the scan bound `limit` never flows into a callback of the filter evaluators (key-ordered early stop)", floor=2)
    rep.rule("R03.2", "recursive operand evaluation is unbounded (const 0); limit-controlled early exits only in id-ordered loops", floor=10)
    rep.rule("R03.3", "success paths pass ScanOrder::truncate / sort_unstable; public entry points pass a constant direction", floor=6)
    rep.rule("R03.4", "validate_complexity precedes filter evaluation and its Err edge does not reach it", floor=3)

    # ------------------------------------------------------------------ R03.1
    for path in (FBW, FBI):
        f = prog.fn(path)
        rep.saw(f, len(f.events))
        lp = limit_param(f)
        der = f.derived_locals([lp], include_call_results=False)
        bad = []
        for e in f.creates():
            if e.cid not in prog.fns:
                continue
            clos = prog.fns[e.cid]
            for i, o in enumerate(e.ops):
                p = core.op_place(o)
                if p is not None and p.l in der and i < len(clos.upvars):
                    sites = closure_reads_upvar(prog, clos, {clos.upvars[i]["n"]})
                    # which call receives this closure?
                    recv = [c.name for c in f.calls() if any(
                        ("create", e) in [(o2[0], o2[1]) for o2 in f.slice_back_op(a)] for a in c.args)]
                    bad.append((clos, recv, sites))
        if not bad:
            rep.ob("R03.1", "no-limit-in-callback|%s" % path, True, "", f.file + ":%d" % f.line)
        for (clos, recv, sites) in bad:
            callee = (recv[0].rsplit("::", 1)[1] if recv else "?")
            rep.ob("R03.1", "%s|%s" % (path, callee), False,
                   "`limit` is captured by the callback handed to %s (read at line(s) %s): a key-ordered scan stopped after `limit` hits "
                   "keeps the first ids in key order, not the first ids of the ascending result" % (
                       recv[0] if recv else "?", sorted({ln for _, ln in sites})), "%s:%d" % (clos.file, clos.line))

    # ------------------------------------------------------------------ R03.2
    for path in (FBW, FBI):
        f = prog.fn(path)
        lp = limit_param(f)
        # (a) recursive / mutual calls
        for e in f.calls_named(re.escape(FBW) + "$", re.escape(FBI) + "$"):
            callee = prog.fn(e.callee, body=False)
            clp = limit_param(callee)
            op = e.args[clp - 1]
            k = op.get("k")
            is_zero = k is not None and k.get("int") == "0"
            forwards = False
            if not is_zero:
                p = core.op_place(op)
                forwards = p is not None and p.l in f.derived_locals([lp], include_call_results=False)
            if e.callee == path:
                rep.ob("R03.2", "operands-unbounded|%s|line-independent#%s" % (path.rsplit("::", 1)[1], _arm_key(f, e)), is_zero,
                       "a recursive operand evaluation must pass the constant 0 (unbounded); a bounded operand yields one end of the operand, not of the combination", e.where())
            else:
                rep.ob("R03.2", "forward|%s->%s" % (path.rsplit("::", 1)[1], e.callee.rsplit("::", 1)[1]), is_zero or forwards,
                       "the bound handed to %s must be the caller's bound or 0" % e.callee, e.where())
        # (b) limit-controlled early exits
        der = f.derived_locals([lp], include_call_results=False)
        nexts = f.calls_named(r"Iterator::next$")
        for b in sorted(f.live_blocks()):
            t = f.term(b)
            if t["k"] != "switch":
                continue
            p = core.op_place(t["o"])
            if p is None or p.l not in der:
                continue
            # comparison `x >= limit` (not the `limit > 0` test): a binary op with a non-constant other side
            cmp_nonconst = False
            for (db, di, kind, data) in f.defs.get(p.l, []):
                if kind == "assign" and data[2]["k"] == "bin":
                    a, bb = data[2]["a"], data[2]["b"]
                    if a.get("k") is None and bb.get("k") is None:
                        cmp_nonconst = True
            if not cmp_nonconst:
                continue
            loops = [n for n in nexts if f.dominates(n.block, b) and f.can_reach([b], [n.block])]
            if not loops:
                # not inside a loop: a plain length test (e.g. ScanOrder::truncate style) — not an early exit
                continue
            inner = [n for n in loops if all(f.dominates(o.block, n.block) for o in loops)][0]
            ok, why = _id_ordered_iterator(f, inner)
            rep.ob("R03.2", "early-exit|%s|%s" % (path.rsplit("::", 1)[1], why), ok,
                   "a limit-controlled early exit must sit in a loop over the id-ordered set (doc_ids_index) or a sorted+deduplicated id list; iterator source: %s" % why,
                   "%s:%d" % (f.file, t.get("ln", 0)))

    # ------------------------------------------------------------------ R03.3
    for name in ("query_ids_from", "search_ids"):
        f = prog.fn(anda.COLL + "::" + name)
        rep.saw(f, len(f.events))
        fb = f.calls_named(r"Collection::filter_by_field$")
        tr = f.calls_named(r"ScanOrder::truncate$")
        oks = []
        for e in fb:
            oks += f.result_edges(e)[0]
        rets = set(f.return_blocks())
        ok = bool(fb) and bool(tr) and bool(oks) and not any(f.reachable_from([t], avoid={x.block for x in tr}) & rets for t in oks)
        rep.ob("R03.3", "truncate-after-filter|%s" % name, ok, "every path from a successful filter evaluation to a return passes ScanOrder::truncate", (fb[0].where() if fb else f.file))
    f = prog.fn(anda.COLL + "::filter_by_field")
    rep.saw(f, len(f.events))
    lp = limit_param(f)
    der = f.derived_locals([lp], include_call_results=False)
    n = 0
    for e in f.calls_named(re.escape(FBW) + "$"):
        callee = prog.fn(FBW, body=False)
        op = e.args[limit_param(callee) - 1]
        p = core.op_place(op)
        if p is None or p.l not in der:
            continue        # unbounded evaluation (const 0)
        n += 1
        oks = f.result_edges(e)[0]
        srt = f.calls_named(r"slice::<impl \[T\]>::sort(_unstable)?$")
        ok = bool(oks) and bool(srt) and not any(f.reachable_from([t], avoid={x.block for x in srt}) & set(f.return_blocks()) for t in oks)
        rep.ob("R03.3", "sort-after-bounded-eval|filter_by_field", ok, "a bounded evaluation is sorted ascending before it is returned", e.where())
    rep.ob("R03.3", "bounded-eval-present|filter_by_field", n >= 1, "anchor: filter_by_field forwards its bound at least once", f.file)
    for name, want in (("query_ids", "Ascending"), ("query_last_ids", "Descending")):
        f = prog.fn(anda.COLL + "::" + name)
        rep.saw(f, len(f.events))
        c = f.calls_named(r"Collection::query_ids_from$")
        ok = False
        for e in c:
            vs = set()
            for a in e.args:
                for o in f.slice_back_op(a, through=lambda ev: False):
                    if o[0] == "agg" and o[1][2]["a"].get("def", "").endswith("ScanOrder"):
                        vs.add(o[1][2]["a"]["v"])
            ok = vs == {want}
        rep.ob("R03.3", "constant-direction|%s" % name, ok, "%s must pass the constant ScanOrder::%s (direction is an input, never derived from the filter)" % (name, want),
               (c[0].where() if c else f.file))
    # truncate keeps the right end: Ascending -> Vec::truncate, Descending -> Vec::drain
    f = prog.fn("anda_db::collection::ScanOrder::truncate")
    arms = {}
    for (sb, place, adt, m, els) in f.variant_edges():
        if adt and adt.endswith("ScanOrder"):
            for v, tb in m.items():
                r = f.reachable_from([tb], avoid=[x for vv, x in m.items() if vv != v])
                arms[v] = {e.name.rsplit("::", 1)[1] for e in f.calls() if e.block in r}
    if not arms:
        # the direction may be tested through the predicate methods instead of a match
        from .c06_db import _bool_switch
        for e in f.calls_named(r"ScanOrder::is_(descending|ascending)$"):
            ft, tt = _bool_switch(f, e)
            if ft is None or tt is None:
                continue
            d_t, a_t = (tt, ft) if e.name.endswith("is_descending") else (ft, tt)
            arms["Descending"] = {x.name.rsplit("::", 1)[1] for x in f.calls() if x.block in f.reachable_from([d_t], avoid=[a_t])}
            arms["Ascending"] = {x.name.rsplit("::", 1)[1] for x in f.calls() if x.block in f.reachable_from([a_t], avoid=[d_t])}
    if not arms:
        raise CheckerFault("ScanOrder::truncate: the direction test was not recognised (neither a match on self nor is_descending()/is_ascending())")
    ok = "truncate" in arms.get("Ascending", ()) and "drain" in arms.get("Descending", ()) and "truncate" not in arms.get("Descending", ()) and "drain" not in arms.get("Ascending", ())
    rep.ob("R03.3", "truncate-arms|ScanOrder::truncate", ok, "Ascending keeps the head (Vec::truncate), Descending keeps the tail (Vec::drain of the head)", f.file + ":%d" % f.line)

    # ------------------------------------------------------------------ R03.4
    for name in ("query_ids_from", "search_ids", "query_all_ids"):
        f = prog.fn(anda.COLL + "::" + name)
        rep.saw(f, len(f.events))
        vc = f.calls_named(r"::validate_complexity$")
        fb = f.calls_named(r"Collection::filter_by_field$")
        ok = bool(vc) and bool(fb) and all(f.must_pass({v.block for v in vc}, [e.block]) for e in fb)
        if ok:
            # Err edge (through map_err + ?) must not reach the evaluation
            for v in vc:
                src = v.dest.l
                der = f.derived_locals([src], call_filter=lambda t: t["f"].get("path") in (core.TRY_BRANCH, "core::result::Result::<T, E>::map_err"))
                errs = []
                for (sb, place, adt, m, els) in f.variant_edges():
                    if place.l in der and "Break" in m:
                        errs.append(m["Break"])
                ok = ok and bool(errs) and not any(f.reachable_from([t]) & {e.block for e in fb} for t in errs)
        rep.ob("R03.4", "complexity-first|%s" % name, ok, "validate_complexity must run (and be obeyed) before the filter is evaluated", (vc[0].where() if vc else f.file))
    # ------------------------------------------------------------------ R03.5 one notion of "the documents"
    rep.rule("R03.5", "every evaluator of the filter algebra answers over the same set of documents: B-tree index hits are intersected with the live id set "
             "(Not, _id predicates, contains and get answer from it), so equal boolean expressions stay equal while a posting exists for an id that is not live", floor=1)
    f = prog.fn(FBW)
    scans = f.calls_named(r"try_range_query_ids$")
    if not scans:
        raise CheckerFault("anchor missing: the B-tree scan of filter_by_field_with")
    for sc in scans:
        clos = [prog.fns[o[1].cid] for a in sc.args for o in f.slice_back_op(a) if o[0] == "create" and o[1].cid in prog.fns]
        pushers = [k for k in clos if any(re.search(r"UniqueVec::<T>::push$|Vec::<T, A>::push$", e.name or "") for e in k.calls())]
        live_ok = False
        for k in pushers:
            # a membership test whose receiver derives from the captured guard of doc_ids_index (an upvar the enclosing function
            # filled from a read of that field)
            ups = {u["n"] for u in k.upvars} if getattr(k, "upvars", None) else set()
            for kk in [k] + list(prog.closures_of(k)):
                for e in kk.calls():
                    if not re.search(r"::contains$", e.name or ""):
                        continue
                    for o in kk.slice_back_op(e.args[0]) if e.args else []:
                        if o[0] == "upvar":
                            # what did the enclosing function capture under that name?
                            locs = f.var_locals(o[1])
                            if any("doc_ids_index" in f.slice_fields({"c": {"l": l_}}) for l_ in locs) or "doc_ids" in str(o[1]):
                                live_ok = True
        rep.ob("R03.5", "index-hits-intersected-with-live-ids|filter_by_field_with", bool(pushers) and live_ok,
               "the B-tree arm of filter_by_field_with emits every id the postings hold: while an add is parked on its document PUT (or after a cancelled add poisoned "
               "the handle) `age >= 0` returns [1, 2] but Not(Not(F)) and And([F, _id >= 0]) return [1] - the index evaluator and the id-set evaluators disagree "
               "about which documents exist", sc.where())

    return rep.finish(EXPLAIN)


def _arm_key(f, e):
    """Stable key for a recursive call site: the enum arms (variant names) that dominate it."""
    names = []
    for (sb, place, adt, m, els) in f.variant_edges():
        if adt and (adt.endswith("::Filter") or adt.endswith("::RangeQuery")):
            for v, tb in m.items():
                if f.dominates(tb, e.block):
                    names.append(v)
    # disambiguate several calls in one arm by their order
    same = [c for c in f.calls() if c.callee == e.callee and _arms_of(f, c) == names]
    same.sort(key=lambda c: (c.block))
    return "/".join(names) + "#%d" % same.index(e) if e in same else "/".join(names)


def _arms_of(f, e):
    names = []
    for (sb, place, adt, m, els) in f.variant_edges():
        if adt and (adt.endswith("::Filter") or adt.endswith("::RangeQuery")):
            for v, tb in m.items():
                if f.dominates(tb, e.block):
                    names.append(v)
    return names


def _id_ordered_iterator(f, next_ev):
    """Does the iterator advanced by `next_ev` walk ids in id order?"""
    through = lambda ev: bool(ITER_THROUGH.search(ev.callee or "")) or ev.callee in core.TRANSPARENT
    fields = f.slice_fields(next_ev.args[0], through=through)
    if "doc_ids_index" in fields:
        return True, "doc_ids_index"
    # a local Vec that was sorted and deduplicated before the loop
    origins = f.slice_back_op(next_ev.args[0], through=through)
    srcs = set()
    for o in origins:
        if o[0] == "arg":
            srcs.add(o[1])
    # locals on the slice
    seen = set()
    f.slice_back_local(core.op_place(next_ev.args[0]).l, through=through, seen=seen)
    sorted_l, dedup_l = set(), set()
    for c in f.calls_named(r"slice::<impl \[T\]>::sort(_unstable)?$"):
        s2 = set()
        f.slice_back_local(core.op_place(c.args[0]).l, seen=s2)
        if f.dominates(c.block, next_ev.block):
            sorted_l |= s2
    for c in f.calls_named(r"Vec::<T, A>::dedup$"):
        s2 = set()
        f.slice_back_local(core.op_place(c.args[0]).l, seen=s2)
        if f.dominates(c.block, next_ev.block):
            dedup_l |= s2
    common = seen & sorted_l & dedup_l
    if common:
        return True, "sorted+dedup local"
    return False, "unrecognised source (fields %s)" % sorted(fields)
