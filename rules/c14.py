"""C14 — service keys confine callers to their database; reads never write.  (DESIGN §4 C14)"""
import re

from lib import core, valueflow
from lib.report import CheckerFault
from . import anda

EXPLAIN = (
    "Static analysis over rustc MIR of anda_db_server (+ anda_db and the index crates for effect summaries): R14.1 the (method, effect) table is extracted from the two parse functions "
    "and the dispatch arms from the two dispatch functions; every arm labelled Read reaches no backend write, no in-memory index mutation, no engine/handle mutator and no AppState mutator "
    "through the whole call graph - the single named exception is the detached cold-open task (api::collection::open -> tokio::spawn), which is checked to contain the open_collection call; "
    "R14.2 authorization dominates body parsing, method resolution and dispatch in execute_rpc, and in require_auth every continuation to the handler lies on the non-POST edge, the "
    "undecodable-path edge or the Ok edge of authorize; R14.3 in rpc_db the scope handed to authorization and the database handed to dispatch are the same extractor value, and dispatch_db "
    "uses the server state only to resolve that database; R14.4 handler modules never see AppState; R14.5 every POST route reaches execute_rpc and the auth layer is a route layer; "
    "R14.6 every refusal of both authorize functions is the nullary ApiError::unauthorized() and AppState::authorize does not consult the database registry. "
    "Not decided: the full request matrix (encodings, malformed names), histories of key changes, timing.")

SRV = "anda_db_server"
INMEM_MUT_RX = re.compile(
    r"^anda_db::database::AndaDB::(set_read_only|set_extension\w*|flush|close|save_extension\w*|remove_extension|create_collection|delete_collection|open_or_create_collection|close_collection|flush_metadata)$|"
    r"^anda_db::collection::Collection::(set_read_only|set_extension\w*|add\w*|update|remove|flush|close|save_extension\w*|remove_extension|create_\w+_index\w*|remove_\w+_index|compact_\w+|reconcile_storage|set_tokenizer|set_index_hooks)$")
_PROG = {}


def load():
    if "p" not in _PROG:
        _PROG["p"] = core.Program(["anda_db_server", "anda_db", "anda_db_btree", "anda_db_tfs", "anda_db_hnsw"])
    return _PROG["p"]


def parse_table(prog, path, enum_adt):
    """{variant: effect} from the tuple aggregates `(Self::Variant, Effect)` built in a parse function."""
    f = prog.fn(path)
    out = {}
    for b in f.live_blocks():
        aggs = {}
        for st in f.stmts(b):
            if st[0] != "A" or st[2]["k"] != "agg":
                continue
            a = st[2]["a"]
            if a["t"] == "adt" and a.get("def") in (enum_adt, SRV + "::api::MethodEffect"):
                aggs[st[1]["l"]] = (a["def"], a["v"])
            elif a["t"] == "tuple" and len(st[2]["ops"]) == 2:
                vs = []
                for o in st[2]["ops"]:
                    p = core.op_place(o)
                    if p is not None and p.l in aggs:
                        vs.append(aggs[p.l])
                if len(vs) == 2 and vs[0][0] == enum_adt and vs[1][0].endswith("MethodEffect"):
                    if vs[0][1] in out and out[vs[0][1]] != vs[1][1]:
                        out[vs[0][1]] = "CONFLICT"
                    else:
                        out[vs[0][1]] = vs[1][1]
    return f, out


def arm_events(prog, f, enum_adt):
    """{variant: [events in the blocks dominated by that variant's edge]}"""
    arms = {}
    for (sb, place, adt, m, els) in f.variant_edges():
        if adt != enum_adt:
            continue
        for v, tb in m.items():
            if sum(1 for x in m.values() if x == tb) != 1:
                continue
            evs = [e for e in f.events if e.kind != "ref" and e.callee not in core.NOISE_CALLEES and f.dominates(tb, e.block)]
            arms.setdefault(v, []).extend(evs)
    return arms


def run(rep, tier):
    prog = load()
    rep.not_decided = "the full request matrix (routes x encodings x malformed names), histories of key changes, timing side channels"
    rep.assumptions = ["rustc MIR and callee resolution; dyn/generic calls over-approximated by trait method", "axum runs route layers before handler extractors",
                       "tokio::spawn detaches the task from the caller's cancellation"]

    # ------------------------------------------------------------------ effect summaries
    app_mut = set()
    for f in prog.fns.values():
        if f.crate == SRV and f.impl_adt == SRV + "::state::AppState" and f.kind == "AssocFn":
            b = prog.async_body(f) or f
            for e in b.calls_named(r"RwLock::<T>::write$|rwlock::RwLock::<T>::write$|RwLock::<R, T>::write$"):
                flds = b.slice_fields(e.args[0])
                if flds & {"databases", "api_keys"}:
                    app_mut.add(f.id)
    rep.note("appstate_mutators", sorted(prog.fns[i].path for i in app_mut))

    def is_eff(n, f):
        nm = anda.node_name(n, f)
        return anda.is_effect(n, f) or bool(INMEM_MUT_RX.search(nm)) or n in app_mut

    # the named exception: closures created in api::collection::open that flow into tokio::spawn
    op = prog.fn(SRV + "::api::collection::open")
    exc = set()
    for e in op.calls_named(r"tokio::task::spawn::spawn$"):
        for a in e.args:
            for o in op.slice_back_op(a):
                if o[0] == "create":
                    exc.add(o[1].cid)
                elif o[0] == "call":
                    # `tokio::spawn(open_detached(db.clone(), name))`: the spawned future is the body of a named async fn
                    tgt = prog.fns.get(o[1].rid) or prog.fns.get(o[1].cid)
                    if tgt is not None and tgt.crate == SRV and prog.async_body(tgt) is not None:
                        exc.add(tgt.id)
                        exc.add(prog.async_body(tgt).id)
    inside = False
    for cid in exc:
        k = prog.fns.get(cid)
        if k is not None:
            for kk in [k] + prog.closures_of(k):
                if kk.calls_named(r"AndaDB::open_collection$"):
                    inside = True
    outside = bool(op.calls_named(r"AndaDB::open_collection$"))
    rep.rule("R14.1", "Read-labelled RPC methods reach no write/mutator through the call graph (single exception: the detached cold-open task)", floor=22)
    rep.ob("R14.1", "exception-shape|api::collection::open", bool(exc) and inside and not outside,
           "the cold open (open_collection, which may flush recovery state) must run inside the closure handed to tokio::spawn, not inline in the cancellable handler", op.file + ":%d" % op.line)
    eff = prog.reaching(is_eff, stop=lambda n, f: n in exc)
    # the exception moves the cold open out of the cancellable future (a durability matter); it does not make it a read.  The
    # detached task is started by Read-labelled methods, and what it runs must then persist nothing.
    eff_all = prog.reaching(is_eff)
    writes_in_task = sorted({anda.node_name(n, prog.fns.get(n)) for cid in exc for k in [prog.fns.get(cid)] if k is not None
                             for kk in [k] + prog.closures_of(k) for e in kk.calls() for n in prog.callee_nodes(e)
                             if n in eff_all or is_eff(n, prog.fns.get(n))})
    rep.ob("R14.1", "read-triggered-cold-open-persists-nothing|api::collection::open", not writes_in_task,
           "the detached task a Read-labelled method starts to open a cold collection runs %s, which checkpoints recovery state "
           "(collection metadata, ids bitmap, index objects, intent retirement) when the last stop was unclean or the cached handle was poisoned: "
           "a read writes to storage" % ", ".join(writes_in_task[:4]), op.file + ":%d" % op.line)
    for (parse_path, enum_adt, disp_path) in ((SRV + "::api::DbMethod::parse", SRV + "::api::DbMethod", SRV + "::api::dispatch_db"),
                                              (SRV + "::api::RootMethod::parse", SRV + "::api::RootMethod", SRV + "::api::dispatch_root")):
        pf, table = parse_table(prog, parse_path, enum_adt)
        rep.saw(pf, len(pf.events))
        variants = [v["name"] for v in prog.adt(enum_adt)["variants"]]
        rep.ob("R14.1", "table-complete|%s" % enum_adt.rsplit("::", 1)[1], set(table) == set(variants) and "CONFLICT" not in table.values(),
               "every %s variant is classified exactly once in parse (missing %s)" % (enum_adt.rsplit("::", 1)[1], sorted(set(variants) - set(table))), pf.file + ":%d" % pf.line)
        df = prog.fn(disp_path)
        rep.saw(df, len(df.events))
        arms = arm_events(prog, df, enum_adt)
        rep.ob("R14.1", "arms-complete|%s" % disp_path.rsplit("::", 1)[1], set(arms) == set(variants), "every variant has its own dispatch arm (missing %s)" % sorted(set(variants) - set(arms)), df.file + ":%d" % df.line)
        for v in sorted(variants):
            if table.get(v) != "Read":
                continue
            bad = []
            for e in arms.get(v, []):
                for n in prog.callee_nodes(e):
                    if n in exc:
                        continue
                    if n in eff or is_eff(n, prog.fns.get(n)):
                        fn_n = prog.fns.get(n)
                        path = prog.find_path(n, is_eff, stop=lambda x, fx: x in exc) if fn_n is not None and not is_eff(n, fn_n) else [anda.node_name(n, fn_n)]
                        bad.append((e, path))
            detail = ""
            if bad:
                e, path = bad[0]
                detail = "method %s is labelled Read (cancellable) but reaches a write: %s" % (v, " -> ".join([e.name] + (path or [])[:8]))
            rep.ob("R14.1", "read-is-effect-free|%s::%s" % (enum_adt.rsplit("::", 1)[1], v), not bad, detail, (bad[0][0].where() if bad else df.file))
    # the shared prologue of dispatch_db (get_db) is effect free
    df = prog.fn(SRV + "::api::dispatch_db")
    gd = df.calls_named(r"AppState::get_db$")
    rep.ob("R14.1", "prologue-effect-free|dispatch_db", bool(gd) and not any(prog.event_in(e, eff) for e in gd), "resolving the database handle performs no write", df.file + ":%d" % df.line)

    # ------------------------------------------------------------------ R14.2
    rep.rule("R14.2", "authorization dominates parsing, method resolution and dispatch (execute_rpc); require_auth continues only on non-POST / authorize Ok", floor=3)
    ex = prog.fn(SRV + "::api::execute_rpc")
    rep.saw(ex, len(ex.events))
    au = ex.calls_named(r"AppState::authorize$")
    okau, errau = set(), set()
    for a in au:
        o, r = ex.result_edges(a)
        okau |= set(o)
        errau |= set(r)
    steps = ex.calls_named(r"RpcRequest::parse$") + [e for e in ex.calls() if e.callee == "<fnptr>"] + \
        [e for e in ex.calls() if re.search(r"FnOnce::call_once$", e.callee or "") and (e.finfo or {}).get("self", "").strip() == "F"]
    rep.ob("R14.2", "authorize-first|execute_rpc", bool(au) and len(steps) >= 4 and bool(okau) and ex.must_pass(okau, [s.block for s in steps]) and
           not any(ex.reachable_from([t]) & {s.block for s in steps} for t in errau),
           "RpcRequest::parse, the method table lookup and both dispatch sites must follow the Ok edge of AppState::authorize (found %d steps)" % len(steps), ex.file + ":%d" % ex.line)
    ra = prog.fn(SRV + "::api::require_auth")
    rep.saw(ra, len(ra.events))
    runs = ra.calls_named(r"axum::middleware::from_fn::Next::run$|middleware::.*Next::run$")
    au = ra.calls_named(r"AppState::authorize$")
    okau, errau = set(), set()
    for a in au:
        o, r = ra.result_edges(a)
        okau |= set(o)
        errau |= set(r)
    ne = ra.calls_named(r"PartialEq.*::ne$|PartialEq.*::eq$")
    from .c06_db import _bool_switch
    nonpost = set()
    for q in ne:
        ft, tt = _bool_switch(ra, q)
        t = tt if q.callee.endswith("::ne") else ft
        if t is not None:
            nonpost.add(t)
    bad_params = {m["Err"] for (sb, place, adt, m, els) in ra.variant_edges() if adt == "core::result::Result" and "Err" in m and "RawPathParams" in ra.locals[place.l]}
    ok = bool(runs) and bool(au) and bool(okau)
    for r in runs:
        # the undecodable-path edge is no exception: a name that is not UTF-8 is answered by the handler's Path extractor with a
        # 400 that differs from the uniform rejection, so a caller who was never authorized learns something
        good = any(ra.dominates(t, r.block) for t in okau | nonpost)
        ok = ok and good
    ok = ok and not any(ra.reachable_from([t]) & {r.block for r in runs} for t in errau)
    rep.ob("R14.2", "continue-only-when-authorized|require_auth", ok,
           "every next.run lies on the non-POST edge or the Ok edge of authorize (the undecodable-path edge included: a non-UTF-8 database name must get the uniform rejection, not the Path extractor's 400); the Err edge reaches none (%d continuation sites)" % len(runs), ra.file + ":%d" % ra.line)
    sc = ra.calls_named(r"api::scope_from_params$")
    rep.ob("R14.2", "scope-from-route|require_auth", bool(sc) and bool(au) and any(("call", s) in [(o[0], o[1]) for a in au[0].args for o in ra.slice_back_op(a)] for s in sc),
           "the scope authorised by the layer is derived from the matched route parameters", ra.file + ":%d" % ra.line)

    # ------------------------------------------------------------------ R14.3
    rep.rule("R14.3", "rpc_db: authorized scope and dispatched database are the same extractor value; dispatch_db uses AppState only to resolve it", floor=3)
    rd = prog.fn(SRV + "::api::rpc_db")
    rep.saw(rd, len(rd.events))
    exe = rd.calls_named(r"api::execute_rpc$")
    ok = False
    if exe:
        e = exe[0]
        scope_locals = set()
        for a in e.args:
            seen = set()
            p = core.op_place(a)
            if p is None:
                continue
            ty = rd.locals[p.l]
            if "auth::Scope" in ty:
                rd.slice_back_local(p.l, seen=seen)
                scope_locals |= seen
        clos_caps = set()
        for a in e.args:
            for o in rd.slice_back_op(a):
                if o[0] == "create":
                    for op_ in o[1].ops:
                        p = core.op_place(op_)
                        if p is not None:
                            s2 = set()
                            rd.slice_back_local(p.l, seen=s2)
                            clos_caps |= s2
        strings = {l for l in scope_locals & clos_caps if rd.locals[l] in ("alloc::string::String", "axum::extract::path::Path<alloc::string::String>")}
        ok = bool(strings)
    rep.ob("R14.3", "same-name|rpc_db", ok, "Scope::Database(..) given to execute_rpc and the db_name captured by the dispatch closure slice back to the same Path<String> value", rd.file + ":%d" % rd.line)
    st_calls = [e for e in df.calls() if (e.callee or "").startswith(SRV + "::state::AppState::")]
    names = {e.callee.rsplit("::", 1)[1] for e in st_calls}
    rep.ob("R14.3", "state-use|dispatch_db", names <= {"get_db", "scoped_info"} and "get_db" in names, "dispatch_db calls AppState only for get_db/scoped_info (found %s)" % sorted(names), df.file + ":%d" % df.line)
    okn = True
    for e in st_calls:
        src = set()
        for a in e.args[1:]:
            for o in df.slice_back_op(a):
                if o[0] == "upvar":
                    src.add(o[1])
        if "db_name" not in src:
            okn = False
    rep.ob("R14.3", "state-keyed-by-authorized-name|dispatch_db", okn and bool(st_calls), "every AppState lookup in dispatch_db is keyed by the authorized db_name", df.file + ":%d" % df.line)

    # ------------------------------------------------------------------ R14.4
    rep.rule("R14.4", "handler modules api::{db,collection,document} never mention AppState", floor=1)
    offenders = []
    n = 0
    for f in prog.fns.values():
        if f.crate == SRV and re.match(r"^anda_db_server::api::(db|collection|document)::", f.path):
            n += 1
            if any("state::AppState" in t for t in f.locals):
                offenders.append(f.path)
    rep.ob("R14.4", "no-appstate-in-handlers", n >= 25 and not offenders, "functions mentioning AppState: %s (of %d handler functions)" % (offenders[:4], n), SRV + "::api")

    # ------------------------------------------------------------------ R14.5
    rep.rule("R14.5", "every POST route handler reaches execute_rpc; require_auth installed as a route layer", floor=2)
    br = prog.fn(SRV + "::build_router")
    rep.saw(br, len(br.events))
    posts = [e for e in br.events if e.kind == "ref" and re.search(r"^anda_db_server::api::rpc_\w+$", e.callee or "")]
    handlers = set()
    for e in br.calls_named(r"axum::routing::method_routing::post$|MethodRouter::<S>::post$|method_routing::MethodRouter::<S, .*>::post$"):
        for a in e.args:
            k = a.get("k")
            if k and "fn" in k:
                handlers.add(k["fn"]["path"])
    exid = {f.id for f in prog.fns.values() if f.path == SRV + "::api::execute_rpc"}
    reach_ex = prog.reaching(lambda n, f: n in exid)
    okh = bool(handlers)
    for h in handlers:
        hf = prog.fn(h, body=False)
        if hf.id not in reach_ex:
            okh = False
    rep.ob("R14.5", "post-handlers-authorize", okh and len(handlers) >= 2, "POST handlers %s must all go through execute_rpc" % sorted(handlers), br.file + ":%d" % br.line)
    rl = br.calls_named(r"Router::<S>::route_layer$")
    refs = [e for e in br.events if e.kind == "ref" and (e.callee or "").endswith("api::require_auth")]
    rep.ob("R14.5", "auth-route-layer", bool(rl) and bool(refs), "require_auth is installed with route_layer (runs after routing, before extractors)", br.file + ":%d" % br.line)

    # ------------------------------------------------------------------ R14.6
    rep.rule("R14.6", "uniform rejection: every refusal is ApiError::unauthorized(); AppState::authorize does not touch the database registry", floor=3)
    az = prog.fn(SRV + "::auth::authorize")
    rep.saw(az, len(az.events))
    errs = []
    for b in az.live_blocks():
        for st in az.stmts(b):
            if st[0] == "A" and st[1]["l"] == 0 and st[2]["k"] == "agg" and st[2]["a"].get("v") == "Err":
                srcs = {o[1].name for o in az.slice_back_op(st[2]["ops"][0], through=lambda ev: False) if o[0] == "call"}
                errs.append(srcs)
    un = prog.fn(SRV + "::error::ApiError::unauthorized", body=False)
    rep.ob("R14.6", "uniform-401|auth::authorize", bool(errs) and all(s == {SRV + "::error::ApiError::unauthorized"} for s in errs) and un.argc == 0,
           "every Err of auth::authorize is the nullary ApiError::unauthorized() (%d refusal sites)" % len(errs), az.file + ":%d" % az.line)
    sa = prog.fn(SRV + "::state::AppState::authorize")
    rep.saw(sa, len(sa.events))
    rs = prog.reach_set([sa.id])
    touches = [prog.node_name(n) for n in rs if n in prog.fns and re.search(r"AppState::(get_db|db_names|info|scoped_info|register_db)$", prog.fns[n].path)]
    flds = set()
    for g in [sa] + [prog.fns[n] for n in rs if n in prog.fns and prog.fns[n].crate == SRV]:
        for e in g.calls():
            if e.args:
                flds |= g.slice_fields(e.args[0])
    rep.ob("R14.6", "registry-independent|AppState::authorize", not touches and "databases" not in flds and bool(sa.calls_named(r"auth::authorize$")),
           "authorization looks up the bound key without consulting the database registry", sa.file + ":%d" % sa.line)
    direct = any(e.dest.l == 0 for e in sa.calls_named(r"auth::authorize$"))
    rep.ob("R14.6", "result-forwarded|AppState::authorize", direct, "AppState::authorize returns the decision of auth::authorize unchanged", sa.file + ":%d" % sa.line)
    # ------------------------------------------------------------------ R14.7 the key comparison looks at every byte
    rep.rule("R14.7", "constant_time_eq folds every byte pair into its accumulator (acc = acc | (x ^ y)) and answers acc == 0; "
                      "ApiKeyHash::verify goes through it", floor=1)
    cte = prog.fn("anda_db_server::api::constant_time_eq")
    rep.saw(cte, len(cte.events))
    accs = set()
    for b in cte.live_blocks():
        for st in cte.stmts(b):
            if st[0] == "A" and st[1]["l"] == 0 and st[2]["k"] == "bin" and st[2]["op"] == "Eq":
                for o in (st[2]["a"], st[2]["b"]):
                    p_ = core.op_place(o)
                    while p_ is not None:
                        accs.add(p_.l)
                        ds = [d for d in cte.defs.get(p_.l, []) if d[2] == "assign" and d[3][2]["k"] == "use"]
                        p_ = core.op_place(ds[0][3][2]["o"]) if len(ds) == 1 and len(cte.defs.get(p_.l, [])) == 1 else None
    acc = [l for l in accs if len(cte.defs.get(l, [])) >= 2]
    ok, why, site = bool(acc), "no loop-carried accumulator feeds the final `== 0`", cte.file + ":%d" % cte.line
    for l in acc:
        for (b, i, kind, data) in cte.defs.get(l, []):
            if kind != "assign":
                ok, why = False, "accumulator written by a call"
                continue
            rv = data[2]
            if rv["k"] == "use" and core.op_const(rv["o"]) is not None:
                continue                    # initialisation
            folds = rv["k"] == "bin" and rv["op"] == "BitOr" and any(core.op_place(o) is not None and core.op_place(o).l == l and not core.op_place(o).p
                                                                     for o in (rv["a"], rv["b"]))
            if not folds:
                ok, why, site = False, "an update of the accumulator does not OR the previous value in (only the last byte pair would decide)", "%s:%d" % (cte.file, data[3] if len(data) > 3 else cte.line)
    if acc:
        rep.ob("R14.7", "folds-every-byte|constant_time_eq", ok, why, site)
    else:
        # another idiom (iterator fold, a library comparison): nothing recognisable to decide on - say so instead of guessing
        rep.note("R14.7-not-decided", "constant_time_eq has no loop-carried accumulator in the recognised form; the fold clause is not decided on this tree")
    ver = prog.fn("anda_db_server::auth::ApiKeyHash::verify") if prog.has_fn("anda_db_server::auth::ApiKeyHash::verify") else None
    if ver is None:
        raise CheckerFault("anchor missing: ApiKeyHash::verify")
    rep.saw(ver, len(ver.events))
    rep.ob("R14.7", "verify-uses-constant-time-eq|ApiKeyHash::verify", bool(ver.calls_named(r"api::constant_time_eq$")) and
           not ver.calls_named(r"PartialEq.*::(eq|ne)$"),
           "key digests are compared through constant_time_eq only", ver.file + ":%d" % ver.line)
    # ------------------------------------------------------------------ R14.8 key changes are durable before they are acknowledged
    rep.rule("R14.8", "persist_api_keys writes the current key table to the primary database on every path to Ok (an empty table included: "
                      "revoking the last key must overwrite the stored hash, or the revoked key is accepted again after a restart)", floor=1)
    pk = prog.fn("anda_db_server::state::AppState::persist_api_keys")
    rep.saw(pk, len(pk.events))
    sv = pk.calls_named(r"AndaDB::save_extension(_from)?$|Collection::save_extension(_from)?$")
    okt = set()
    for e in sv:
        okt |= set(pk.result_edges(e)[0])
        # `if let Some(db) = primary && let Err(err) = save(..).await { return Err } Ok(())`: the Ok edge is the non-Err continuation
    none_t = [m["None"] for (sb, place, adt, m, els) in pk.variant_edges() if adt == "core::option::Option" and "None" in m
              and "databases" in pk.slice_fields({"c": {"l": place.l}}, through=lambda ev: True)]
    okret = [b for b in pk.live_blocks() for st in pk.stmts(b) if st[0] == "A" and st[1]["l"] == 0 and not st[1].get("p")
             and st[2]["k"] == "agg" and st[2]["a"].get("def") == "core::result::Result" and st[2]["a"].get("v") == "Ok"]
    rep.ob("R14.8", "persist-writes-on-every-ok-path|persist_api_keys", bool(sv) and bool(okt) and bool(okret) and pk.must_pass(okt | set(none_t), okret),
           "persist_api_keys can return Ok without having written the key table to the primary database (and a primary database exists)",
           sv[0].where() if sv else pk.file + ":%d" % pk.line)
    return rep.finish(EXPLAIN)
