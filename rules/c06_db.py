"""C06 database-level rules R06.4-R06.7 (anda_db::database)."""
import re

from lib import core
from lib.report import CheckerFault
from . import anda

DB = anda.DB


def _recv(f, e):
    return anda.recv_fields(f, e)


def _ev(f, rx, field=None, nofield=None):
    out = []
    for e in f.calls_named(rx):
        fs = _recv(f, e)
        if field is not None and field not in fs:
            continue
        if nofield is not None and nofield in fs:
            continue
        out.append(e)
    return out


def _blocks(evs):
    return {e.block for e in evs}


def order(rep, rule, f, key, a_evs, b_evs, what, strict_after=True, conditional=False):
    """every b is preceded by some a on all paths, and no a is reachable after a b.
    conditional=True: a is an optional step; only `no a after b` is required."""
    ab, bb = _blocks(a_evs), _blocks(b_evs)
    ok = bool(ab) and bool(bb) and (conditional or all(f.must_pass(ab, [b]) for b in bb))
    if ok and strict_after:
        ok = not f.can_reach(bb, ab - bb)
    site = (b_evs[0].where() if b_evs else (a_evs[0].where() if a_evs else f.file))
    rep.ob(rule, key, ok, what + ("" if ab and bb else " (anchor sites: %d before / %d after)" % (len(ab), len(bb))), site)
    return ok


def run(rep, prog, C, eff, entry_ids):
    rep.rule("R06.4", "delete_collection: name lock < tombstone < begin_delete < metadata flush < drop_data < registry removal < tombstone removal; "
                      "Storage::drop_data callers; open/create consult the tombstone", floor=12)
    rep.rule("R06.5", "per-name lifecycle lock held across every storage-affecting step of open/close/delete/create; poisoned handle drained, never closed; a handle is unregistered only when quiescent", floor=11)
    rep.rule("R06.7", "database read-only: open path flushes only on the not-read-only edge; create/delete refuse first", floor=4)

    def body(name):
        return prog.fn(DB + "::" + name)

    # ------------------------------------------------------------------ R06.4 delete order
    d = body("delete_collection")
    rep.saw(d, len(d.events))
    lock = d.calls_named(r"AndaDB::lock_collection_name$")
    tomb_ins = _ev(d, r"BTreeSet::<T, A>::insert$", "dropping_collections")
    tomb_rm = _ev(d, r"BTreeSet::<T, A>::remove$", "dropping_collections")
    begin = d.calls_named(r"Collection::begin_delete$")
    mflush = d.calls_named(r"AndaDB::flush_metadata$")
    drops = d.calls_named(r"Collection::drop_data$", r"Storage::drop_data$")
    reg_rm = _ev(d, r"BTreeMap::<K, V, A>::remove$", "collections", nofield="metadata")
    steps = [("name-lock", lock), ("tombstone-insert", tomb_ins), ("begin_delete", begin), ("flush_metadata", mflush),
             ("drop_data", drops), ("registry-remove", reg_rm), ("tombstone-remove", tomb_rm)]
    # the removals lie on the Ok edge of a Result whose Ok values can only come from a drop_data call
    ok_guard = False
    for (sb, place, adt, m, els) in d.variant_edges():
        if adt != "core::result::Result" or "Ok" not in m or "Err" not in m:
            continue
        if not all(d.dominates(m["Ok"], b) for b in _blocks(tomb_rm) | _blocks(reg_rm)):
            continue
        if d.reachable_from([m["Err"]]) & (_blocks(tomb_rm) | _blocks(reg_rm)):
            continue
        orig = d.value_origins(place.l)
        evs_ok = [o for o in orig if o[0] == "event"]
        aggs = [o for o in orig if o[0] == "agg" and o[1] == "core::result::Result"]
        if evs_ok and all(o[1] in drops for o in evs_ok) and all(o[2] == "Err" for o in aggs):
            ok_guard = True
    rep.ob("R06.4", "delete-order|removals-on-drop-ok-edge", ok_guard and bool(tomb_rm) and bool(reg_rm),
           "registry and tombstone removal must be dominated by the Ok edge of the drop result, whose Ok values come only from drop_data",
           (tomb_rm[0].where() if tomb_rm else d.file))
    optional = {"begin_delete", "registry-remove", "drop_data"}    # drop_data: the connect-failure arm yields Err without a call
    for i, (na, a) in enumerate(steps):
        for (nb, b) in steps[i + 1:i + 3]:
            if na in optional and nb in optional and na != "drop_data":
                continue
            order(rep, "R06.4", d, "delete-order|%s<%s" % (na, nb), a, b,
                  "%s must precede %s on every path of delete_collection" % (na, nb), conditional=(na in optional))
    # drop failure keeps tombstone and registry entry
    bad = []
    for c in drops:
        src = c.poll_dest.l if c.poll_dest is not None else c.dest.l
        for (_, adt, m) in d.outcome_edges(src):
            if "err" in m:
                r = d.reachable_from([m["err"]])
                if r & (_blocks(tomb_rm) | _blocks(reg_rm)):
                    bad.append(c.name)
    rep.ob("R06.4", "delete-order|drop-err-keeps-tombstone", not bad and bool(drops),
           "the Err edge of drop_data must not reach the registry/tombstone removal", drops[0].where() if drops else d.file)
    # metadata flush failure must not reach drop
    bad = []
    for c in mflush:
        src = c.poll_dest.l if c.poll_dest is not None else c.dest.l
        for (_, adt, m) in d.outcome_edges(src):
            if "err" in m and d.reachable_from([m["err"]]) & _blocks(drops):
                bad.append(c)
    rep.ob("R06.4", "delete-order|flush-err-no-drop", not bad and bool(mflush), "the Err edge of flush_metadata must not reach drop_data",
           mflush[0].where() if mflush else d.file)

    # who may call Storage::drop_data
    allowed = {anda.COLL + "::drop_data", DB + "::delete_collection"}
    callers = set()
    for f in prog.fns.values():
        if f.crate != "anda_db":
            continue
        for e in f.calls_named(r"^anda_db::storage::Storage::drop_data$"):
            callers.add(prog.outer_fn(f).path)
            rep.ob("R06.4", "who-may-call|Storage::drop_data|%s" % prog.outer_fn(f).path, prog.outer_fn(f).path in allowed,
                   "Storage::drop_data (removes the whole prefix) may only be called by %s" % sorted(allowed), e.where())
    # Collection::drop_data callers
    allowed2 = {DB + "::delete_collection", DB + "::register_created_collection"}
    for f in prog.fns.values():
        if f.crate != "anda_db":
            continue
        for e in f.calls_named(r"^anda_db::collection::Collection::drop_data$"):
            o = prog.outer_fn(f).path
            rep.ob("R06.4", "who-may-call|Collection::drop_data|%s" % o, o in allowed2,
                   "Collection::drop_data may only be called by %s" % sorted(allowed2), e.where())

    # tombstone consulted on open/create paths
    for name in ("create_collection", "open_or_create_collection", "open_collection_with_schema"):
        f = body(name)
        rep.saw(f, len(f.events))
        lock = f.calls_named(r"AndaDB::lock_collection_name$")
        tomb = _ev(f, r"BTreeSet::<T, A>::contains$", "dropping_collections")
        storage_steps = f.calls_named(r"^anda_db::collection::Collection::(create|open)$")
        post = [t for t in tomb if any(f.dominates(l.block, t.block) for l in lock)]
        ok = bool(post) and bool(storage_steps) and all(f.must_pass(_blocks(post), [s.block]) for s in storage_steps)
        rep.ob("R06.4", "tombstone-after-lock|%s" % name, ok,
               "a dropping_collections check taken after the name lock must dominate Collection::create/open", f.file + ":%d" % f.line)
        # each tombstone check must branch: the `true` edge reaches no storage step
        for t in post:
            tgt_true = _bool_true_target(f, t)
            okb = tgt_true is not None and not (f.reachable_from([tgt_true]) & _blocks(storage_steps))
            rep.ob("R06.4", "tombstone-refuses|%s" % name, okb, "the tombstone-present edge must not reach Collection::create/open", t.where())
        if name != "create_collection":
            reg = _ev(f, r"BTreeMap::<K, V, A>::(get|contains_key)$", "collections", nofield="metadata")
            first = [r for r in reg if not any(f.can_reach([o.block], [r.block]) for o in reg if o is not r)]
            ok = bool(tomb) and bool(reg) and all(f.must_pass(_blocks(tomb), [r.block]) for r in reg)
            rep.ob("R06.4", "tombstone-before-registry|%s" % name, ok,
                   "the tombstone must be consulted before any registry lookup that can return a cached handle", f.file + ":%d" % f.line)

    # ------------------------------------------------------------------ R06.5 name lock held
    lock_ty = "anda_db::database::CollectionNameLock"
    locking_fns = set()
    for f in prog.fns.values():
        if f.crate == "anda_db" and prog.outer_fn(f).path.startswith(DB + "::"):
            if f.calls_named(r"AndaDB::lock_collection_name$"):
                locking_fns.add(prog.outer_fn(f).id)
    storage_rx = (r"^anda_db::collection::Collection::(create|open|close|drop_data|flush|begin_delete)$",
                  r"^anda_db::storage::Storage::drop_data$", r"AndaDB::register_created_collection$", r"AndaDB::flush_metadata$")
    for name in ("create_collection", "open_or_create_collection", "open_collection_with_schema", "close_collection", "delete_collection"):
        f = body(name)
        acq = f.calls_named(r"AndaDB::lock_collection_name$")
        ins, outs = core.guard_flow(f, acq, re.escape(lock_ty))
        steps = f.calls_named(*storage_rx)
        bad = []
        for s in steps:
            if not ins.get(s.block) and not ins.get(s.call_block):
                bad.append("%s (line %d)" % (s.name.rsplit("::", 2)[-2] + "::" + s.name.rsplit("::", 1)[-1], s.line))
        rep.ob("R06.5", "name-lock-held|%s" % name, bool(acq) and bool(steps) and not bad,
               "per-name lifecycle lock must be held at: %s" % ", ".join(bad), f.file + ":%d" % f.line)
    # register_created_collection (private): every caller holds the lock at the call
    for f in prog.fns.values():
        if f.crate != "anda_db":
            continue
        for e in f.calls_named(r"AndaDB::register_created_collection$"):
            acq = f.calls_named(r"AndaDB::lock_collection_name$")
            ins, outs = core.guard_flow(f, acq, re.escape(lock_ty))
            rep.ob("R06.5", "name-lock-held|caller-of-register|%s" % prog.outer_fn(f).path, bool(ins.get(e.block)),
                   "register_created_collection must be called with the name lock held", e.where())
    # poisoned handle: drained, never closed/flushed
    f = body("open_collection_with_schema")
    pois = f.calls_named(r"Collection::is_poisoned$")
    closes = f.calls_named(r"^anda_db::collection::Collection::(close|flush)$")
    drains = f.calls_named(r"Collection::drain_operations$")
    ok = False
    if pois and drains:
        tt = _bool_true_target(f, pois[0])
        ft = _bool_false_target(f, pois[0])
        close_only = [c for c in closes if c.name.endswith("::close")]
        if tt is not None:
            r = f.reachable_from([tt], avoid=_blocks(f.calls_named(r"^anda_db::collection::Collection::open$")))
            ok = not (r & _blocks(close_only)) and bool(r & _blocks(drains))
    rep.ob("R06.5", "poisoned-drained-not-closed|open_collection_with_schema", ok,
           "on the is_poisoned edge the retiring handle is drained and Collection::close is not reached before the fresh load",
           pois[0].where() if pois else f.file)
    # a handle leaves the registry only once it is quiescent: after its close() returned Ok, after its operations were drained
    # (poisoned handle), or after its data was dropped.  Evicting a handle whose close failed lets the next open skip the
    # drain and load a fresh generation while an operation admitted on the old handle is still in flight.
    for g in prog.fns.values():
        if not g.file.endswith("anda_db/src/database.rs"):
            continue
        rem = [e for e in g.calls() if re.search(r"(HashMap|BTreeMap).*::remove$", e.name or "")
               and "collections" in anda.recv_fields(g, e) and "metadata" not in anda.recv_fields(g, e)]
        if not rem:
            continue
        rep.saw(g, len(rem))
        q = set()
        for c in g.calls_named(r"^anda_db::collection::Collection::(close|drop_data)$"):
            q |= set(g.result_edges(c)[0])
        for c in g.calls_named(r"^anda_db::collection::Collection::drain_operations$"):
            t_ = g.term(c.block)
            q.add(t_["t"] if t_["k"] == "call" and t_.get("t") is not None else c.block)
        for r_ in rem:
            rep.ob("R06.5", "unregister-only-when-quiescent|%s" % prog.outer_fn(g).path.rsplit("::", 1)[1], bool(q) and g.must_pass(q, [r_.block]),
                   "a collection handle is removed from the registry on a path that passed neither the Ok edge of its close()/drop_data() nor a drain of its operations",
                   r_.where())

    # retiring handle is closed (or drained) before Collection::open loads a fresh generation
    opens = f.calls_named(r"^anda_db::collection::Collection::open$")
    lockev = f.calls_named(r"AndaDB::lock_collection_name$")
    reg = [r for r in _ev(f, r"BTreeMap::<K, V, A>::get$", "collections", nofield="metadata")
           if any(f.dominates(l.block, r.block) for l in lockev)]
    rep.ob("R06.5", "registry-consulted-before-load|open_collection_with_schema",
           bool(opens) and bool(reg) and all(f.must_pass(_blocks(reg), [o.block]) for o in opens),
           "the registry is re-read under the name lock before Collection::open loads a fresh generation",
           opens[0].where() if opens else f.file)

    # ------------------------------------------------------------------ R06.7 database read-only
    f = body("open_collection_with_schema")
    loads = _ev(f, r"Atomic::<bool>::load$", "read_only")
    flushes = f.calls_named(r"^anda_db::collection::Collection::flush$")
    ok = False
    if loads and flushes:
        ok = True
        for fl in flushes:
            good = False
            for ld in loads:
                tt, ft = _bool_true_target(f, ld), _bool_false_target(f, ld)
                if ft is not None and tt is not None and f.dominates(ft, fl.block) and fl.block not in f.reachable_from([tt]):
                    good = True
            ok = ok and good
    rep.ob("R06.7", "ro-open-no-flush|open_collection_with_schema", ok,
           "Collection::flush in the open path must lie only on the not-read-only edge of the database flag",
           flushes[0].where() if flushes else f.file)
    for name in ("create_collection", "open_or_create_collection", "delete_collection"):
        f = body(name)
        loads = _ev(f, r"Atomic::<bool>::load$", "read_only")
        steps = f.calls_named(*storage_rx) + f.calls_named(r"AndaDB::open_collection_with_schema$")
        ok = False
        if loads:
            ld = loads[0]
            tt = _bool_true_target(f, ld)
            ok = tt is not None and all(f.must_pass([ld.block], [s.block]) for s in steps) and not (
                f.reachable_from([tt]) & _blocks(steps))
        rep.ob("R06.7", "ro-refuses|%s" % name, ok and bool(steps),
               "database read_only flag is tested first and its true edge reaches no storage-affecting step", f.file + ":%d" % f.line)
    # AndaDB::close closes every registered collection on their behalf and publishes the database flag as its admission barrier first:
    # what each collection was *on its own account* has to be read from that collection (the database flag does not know it)
    fc = [x for x in prog.fns.values() if x.path == "anda_db::database::AndaDB::close"]
    if not fc:
        raise CheckerFault("anchor missing: AndaDB::close")
    bc = prog.async_body(fc[0]) or fc[0]
    own = []
    for h in [bc] + prog.closures_of(bc):
        if not any("collection::Collection" in (t or "") for t in h.locals):
            continue
        for e in h.calls_named(r"Atomic::<bool>::(load|swap|fetch_or|compare_exchange)$"):
            if anda.recv_fields(h, e) == {"read_only"}:
                own.append(e)
    rep.saw(bc, len(own))
    rep.ob("R06.7", "own-flag-sampled|AndaDB::close", bool(own),
           "AndaDB::close never reads a collection's own read_only flag: a collection frozen with Collection::set_read_only(true) inside a writable database "
           "is flushed by the database's close (metadata, ids, index objects, checkpoint) although the handle was read-only when the close began - "
           "Collection::close, the sibling path, does sample it", bc.file + ":%d" % bc.line)


def _bool_switch(f, e):
    """switch on the bool result of call event e (possibly through a Not): returns (false_target, true_target)."""
    der = {e.dest.l}
    neg = set()
    changed = True
    while changed:
        changed = False
        for b in f.live_blocks():
            for st in f.stmts(b):
                if st[0] != "A":
                    continue
                rv = st[2]
                dl = st[1]["l"]
                if dl in der or dl in neg:
                    continue
                if rv["k"] == "use":
                    p = core.op_place(rv["o"])
                    if p is not None and p.l in der:
                        der.add(dl)
                        changed = True
                    elif p is not None and p.l in neg:
                        neg.add(dl)
                        changed = True
                elif rv["k"] == "un" and rv["op"] == "Not":
                    p = core.op_place(rv["o"])
                    if p is not None and p.l in der:
                        neg.add(dl)
                        changed = True
                    elif p is not None and p.l in neg:
                        der.add(dl)
                        changed = True
    cands = []
    for b in sorted(f.live_blocks()):
        t = f.term(b)
        if t["k"] != "switch":
            continue
        p = core.op_place(t["o"])
        if p is None:
            continue
        if not f.dominates(e.block, b):
            continue
        vals = dict(t["v"])
        if p.l in der and "0" in vals:
            cands.append((b, (vals["0"], t["else"])))
        elif p.l in neg and "0" in vals:
            cands.append((b, (t["else"], vals["0"])))
    # the test nearest to the call: the candidate no other candidate dominates (block numbers say nothing about order
    # once helper bodies have been appended by the inliner)
    for (b, r) in cands:
        if not any(b2 != b and f.dominates(b2, b) for (b2, _) in cands):
            return r
    return (None, None)


def _bool_true_target(f, e):
    return _bool_switch(f, e)[1]


def _bool_false_target(f, e):
    return _bool_switch(f, e)[0]
