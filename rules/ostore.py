"""Shared anchors for anda_object_store (MetaStore / EncryptedStore / SidecarStore)."""
import re

from lib import core, valueflow
from lib.report import CheckerFault

SC = "anda_object_store::sidecar::SidecarStore::<T, M>"
BACKEND_RX = re.compile(r"object_store::(ObjectStore(Ext)?|upload::MultipartUpload)>?::(\w+)$")
WRITE_METHODS = {"put", "put_opts", "put_multipart", "put_multipart_opts", "copy", "copy_opts", "copy_if_not_exists", "rename", "rename_opts",
                 "rename_if_not_exists", "delete", "delete_stream", "put_part", "complete", "abort"}
READ_METHODS = {"get", "get_opts", "get_range", "get_ranges", "head", "list", "list_with_offset", "list_with_delimiter"}
PATH_FNS = ("meta_path", "generation_path", "payload_path", "legacy_path")
_PROG = {}


def load():
    if "p" not in _PROG:
        _PROG["p"] = core.Program(["anda_object_store"])
    return _PROG["p"]


def in_scope(f):
    return f.crate == "anda_object_store" and "fault.rs" not in f.file


def backend_events(prog, methods=None):
    """(fn, event, method) for calls on the wrapped backend (`T`) or the inner multipart upload."""
    out = []
    for f in prog.fns.values():
        if not in_scope(f):
            continue
        for e in f.calls():
            m = BACKEND_RX.search(e.callee or "")
            if not m:
                continue
            st = (e.finfo or {}).get("self", "")
            if not (st == "T" or "dyn object_store::upload::MultipartUpload" in st):
                continue
            if methods is None or m.group(3) in methods:
                out.append((f, e, m.group(3)))
    return out


def path_origin(prog, f, op, depth=0):
    """Names describing where a path operand comes from: path helper fns, 'param', 'upvar:<n>' resolved
    through the creating function, 'other:<callee>'."""
    out = set()
    for o in f.slice_back_op(op):
        if o[0] == "call":
            n = o[1].name.rsplit("::", 1)[1]
            out.add(n if n in PATH_FNS else "other:" + n)
        elif o[0] == "arg":
            out.add("param")
        elif o[0] == "upvar" and depth < 3:
            # resolve in the parent at the creation site
            parent = prog.fns.get(f.parent)
            resolved = False
            if parent is not None:
                for ce in parent.creates():
                    if ce.cid == f.id:
                        for i, uv in enumerate(f.upvars):
                            if uv["n"] == o[1] and i < len(ce.ops):
                                out |= path_origin(prog, parent, ce.ops[i], depth + 1)
                                resolved = True
            if not resolved:
                out.add("upvar:" + o[1])
    return out


def fresh_generation(prog, f, gen_path_event, depth=0):
    """Does the generation argument of a generation_path(..) call come from new_generation()
    (directly, through a struct field initialised from it, or through a captured variable)?"""
    if len(gen_path_event.args) < 3:
        return False
    return _slices_to(prog, f, gen_path_event.args[2], r"sidecar::new_generation$", depth)


def _slices_to(prog, f, op, callee_rx, depth=0):
    rx = re.compile(callee_rx)
    for o in f.slice_back_op(op):
        if o[0] == "call" and rx.search(o[1].name):
            return True
        if o[0] == "upvar" and depth < 4:
            parent = prog.fns.get(f.parent)
            if parent is not None:
                for ce in parent.creates():
                    if ce.cid == f.id:
                        for i, uv in enumerate(f.upvars):
                            if uv["n"] == o[1] and i < len(ce.ops):
                                if _slices_to(prog, parent, ce.ops[i], callee_rx, depth + 1):
                                    return True
    return False


def closure_bodies(prog, f):
    """f and every closure/coroutine body nested in it."""
    return [f] + prog.closures_of(f)


def fn(prog, path):
    return prog.fn(path)


def wrapper_fn(prog, wrapper, method):
    """Coroutine body of `<Wrapper<T> as ObjectStore>::method` (async_trait: Box::pin(async move {..}))."""
    pats = {"MetaStore": "<anda_object_store::MetaStore<T> as object_store::ObjectStore>::",
            "EncryptedStore": "<anda_object_store::encryption::EncryptedStore<T> as object_store::ObjectStore>::",
            "MetaStoreUploader": "<anda_object_store::MetaStoreUploader<T> as object_store::upload::MultipartUpload>::",
            "EncryptedStoreUploader": "<anda_object_store::encryption::EncryptedStoreUploader<T> as object_store::upload::MultipartUpload>::"}
    return prog.fn(pats[wrapper] + method)


# origin callee (regex) -> reason why its Err may legitimately end in a non-error outcome
TOLERATED_ERR_TO_OK = {
    r"::decode_meta$": "a commit point that does not decode is external corruption, not a backend failure: put rebuilds it, "
                       "listing skips it under the lenient policy, the collector treats it as referencing everything (R08.4)",
}


def error_swallow_rules(rep, rule, prog):
    """No backend failure is turned into an answer: on the Err edge of every `Result<_, object_store::Error>` test, an
    `Ok(..)` return is reachable only through an edge that names a specific error variant (NotFound, AlreadyExists, ...).
    A catch-all arm that returns Ok would report a transient backend error as "absent" - to a reader (C07) and, worse,
    to the collector's mark phase and re-check, which would then delete a referenced payload (C08)."""
    n = 0
    for f in prog.fns.values():
        if not in_scope(f):
            continue
        ve = f.variant_edges()
        okb = set()
        for b in f.live_blocks():
            for st in f.stmts(b):
                if st[0] == "A" and st[1]["l"] == 0 and not st[1].get("p") and st[2]["k"] == "agg" \
                        and st[2]["a"].get("def") == "core::result::Result" and st[2]["a"].get("v") == "Ok":
                    okb.add(b)
        if not okb:
            continue
        # arms that name a variant (the catch-all target is shared by every variant not named)
        specific = {t for (b, place, adt, m, els) in ve if adt == "object_store::Error" for t in m.values() if t != els}
        for (b, place, adt, m, els) in ve:
            if adt != "core::result::Result" or "Err" not in m or "object_store::Error" not in f.locals[place.l]:
                continue
            origins = [o[1] for o in f.slice_back_local(place.l, proj=place) if o[0] == "call"]
            names = sorted({(o.name or "") for o in origins})
            tol = [rx for rx in TOLERATED_ERR_TO_OK if any(re.search(rx, nm) for nm in names)]
            # path-sensitive: `if let Err(e) = r && !matches!(e, NotFound { .. }) { return Err(e) }` routes the other variants
            # through a flag; constants assigned to it are followed
            hit = valueflow.reachable_ps(f, m["Err"], avoid=specific) & okb
            n += 1
            o = prog.outer_fn(f)
            short = o.path.rsplit("::", 1)[1]
            key = "err-not-swallowed|%s|%s" % (short, "+".join(re.sub(r"(::\{closure#\d+\})+$", "", nm).rsplit("::", 1)[-1] for nm in names) or "?")
            rep.ob(rule, key, not hit or bool(tol),
                   "the Err edge of this test reaches an Ok(..) return without passing an arm for a specific object_store::Error variant "
                   "(a backend failure would be reported as a normal answer)", "%s:%s" % (f.file, f.term(b).get("ln", f.line)))
    return n



def commit_error_forgets_cache_rules(rep, rule, prog):
    """Shared by C07 and C01: the metadata document put / delete inside `and_try_compute_with` is the commit point of a sidecar
    store.  When the compute returns an error the cache entry is left as it was; other than for a known rejection that error may come
    from the commit-point call itself, whose outcome is then unknown - the backend may have applied it.  A surviving entry keeps
    handing out the superseded version and token (reads resolve the cache first; the old payload still exists) while conditional
    writes are checked against the backend and refused.  So: the Err edge of the compute must reach a cache invalidation."""
    n = 0
    for f in prog.fns.values():
        if not in_scope(f) or not f.path.startswith(SC + "::"):
            continue
        comp = f.calls_named(r"moka::future::entry_selector::OwnedKeyEntrySelector::<.*>::and_try_compute_with$")
        if not comp:
            continue
        wbodies = {ff.id for (ff, e_, m_) in backend_events(prog, WRITE_METHODS)}
        if not any(k.id in wbodies for k in prog.closures_of(f)):
            continue        # a read-through fill (get_meta / refresh_meta): nothing is committed inside
        # only computes whose closure reaches a backend write are commit points
        inv_ids = {g.id for g in prog.fns.values() if in_scope(g) and any(
            re.search(r"moka::future::cache::Cache::<K, V, S>::(invalidate|remove)$", e.name or "") for e in g.calls())}
        inv_ids |= {gid for gid in prog.fns if in_scope(prog.fns[gid]) and prog.reach_set([gid]) & inv_ids}
        for c in comp:
            n += 1
            rep.saw(f, 1)
            src = c.poll_dest.l if c.poll_dest is not None else c.dest.l
            errs = []
            for (_, adt, m) in f.outcome_edges(src):
                if "Err" in m:
                    errs.append(m["Err"])
                if "Break" in m:
                    errs.append(m["Break"])
            ok = bool(errs)
            for t in errs:
                reach = f.reachable_from([t])
                hit = any(e.block in reach and (re.search(r"Cache::<K, V, S>::(invalidate|remove)$", e.name or "") or set(prog.callee_nodes(e)) & inv_ids)
                          for e in f.calls())
                ok = ok and hit
            rep.ob(rule, "commit-error-forgets-cache|%s" % prog.outer_fn(f).path.rsplit("::", 1)[1], ok,
                   "an error of the commit (the metadata put / delete inside and_try_compute_with) returns with the cache entry untouched: when the "
                   "backend applied the call although it reported failure, head / get keep answering the superseded version and token from the cache "
                   "while every Update(token) is refused with Precondition - for the cache TTL the key cannot be written, and a collection whose ids.cbor "
                   "commit was lost this way cannot be reopened in the process", c.where())
    if n < 2:
        raise CheckerFault("anchor missing: and_try_compute_with commit points in sidecar.rs (found %d)" % n)
