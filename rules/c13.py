"""C13 — what validation accepts, storage returns unchanged; nothing invalid gets in.  (DESIGN §4 C13)"""
import re

from lib import core, valueflow
from lib.report import CheckerFault
from . import c15

EXPLAIN = (
    "Static analysis over rustc MIR of anda_db_schema: R13.1 the cross-variant (declared type, value variant) pairs accepted by FieldType::validate_inner are extracted from the "
    "dominating match edges of its accepting blocks and must all be folded to the declared variant by FieldType::normalize_at (extracted the same way from its assignments); extract_at has "
    "its own arm for every FieldType variant and the fall-through arm of validate_inner is an error; R13.2 validate runs the complexity budget before the structural check, and every "
    "function of Document that stores field values passes normalization (for untyped inputs) and then validation on every path to the store; R13.3 every recursive component of the crate's "
    "call graph over values contains a check_conversion_depth call on every cycle, or is entered only behind validate_complexity; R13.4 a schema upgrade is accepted only on the compatible "
    "edge of is_compatible_upgrade_of and new field indexes are allocated from the old schema's high-water mark in both passes. "
    "Not decided: value-level round trip for all types and values; derive-macro output.")

S = "anda_db_schema"
FT = S + "::field::FieldType"
FV = S + "::field::FieldValue"
_PROG = {}


def load():
    if "p" not in _PROG:
        _PROG["p"] = core.Program(["anda_db_schema"])
    return _PROG["p"]


def dominating_variants(f, block):
    out = {}
    for (sb, place, adt, m, els) in f.variant_edges():
        if adt not in (FT, FV):
            continue
        for v, tb in m.items():
            if sum(1 for x in m.values() if x == tb) == 1 and f.dominates(tb, block):
                out.setdefault(adt, []).append((v, repr(place)))
    return out


def run(rep, tier):
    prog = load()
    rep.not_decided = "value-level round trip for all types/values, tuple arity and map key semantics beyond the structural arms, derive-macro output"
    rep.assumptions = ["rustc MIR", "serde visitors' recursion is bounded by serde/cbor2 limits"]

    # ------------------------------------------------------------------ R13.1
    rep.rule("R13.1", "read-back shapes accepted by validate_inner are folded by normalize_at; extract_at covers every declared type; fall-through arm of validate_inner is an error", floor=6)
    vi = prog.fn(FT + "::validate_inner")
    rep.saw(vi, len(vi.events))
    accepted = set()
    for b in vi.live_blocks():
        for st in vi.stmts(b):
            if st[0] == "A" and st[1]["l"] == 0 and st[2]["k"] == "agg" and st[2]["a"].get("v") == "Ok":
                dv = dominating_variants(vi, b)
                for (t, _) in dv.get(FT, []):
                    vs = [v for v, _ in dv.get(FV, [])]
                    if not vs:
                        accepted.add((t, "*"))
                    for v in vs:
                        accepted.add((t, v))
    cross = {(t, v) for (t, v) in accepted if v not in (t, "*") and t not in ("Option",)}
    rep.note("accepted_pairs", sorted(accepted))
    na = prog.fn(FT + "::normalize_at")
    rep.saw(na, len(na.events))
    folded = set()
    for b in na.live_blocks():
        for st in na.stmts(b):
            if st[0] != "A" or not st[1].get("p") or st[1]["l"] != 2:
                continue
            # `*value = ...`
            dv = dominating_variants(na, b)
            newv = None
            if st[2]["k"] == "agg" and st[2]["a"].get("def") == FV:
                newv = st[2]["a"]["v"]
            else:
                for o in core._rvalue_operands(st[2]):
                    pl = core.op_place(o)
                    for x in (na.slice_back_local(pl.l, through=lambda ev: ev.callee in core.VARIANT_PRESERVING, agg_descend=False) if pl is not None else []):
                        if x[0] == "agg" and x[1][2]["a"].get("def") == FV:
                            newv = x[1][2]["a"]["v"]
                        if x[0] == "call" and x[1].name.endswith("FieldValue::json_from"):
                            newv = "Json"
            for (t, _) in dv.get(FT, []):
                vs = [v for v, _ in dv.get(FV, [])] or ["*"]
                for v in vs:
                    folded.add((t, v, newv))
    rep.note("folded", sorted(str(x) for x in folded))
    for (t, v) in sorted(cross):
        ok = (t, v, t) in folded
        rep.ob("R13.1", "folded|%s<-%s" % (t, v), ok,
               "validate_inner accepts a %s value for a declared %s but normalize_at does not fold it back to %s: the stored variant would differ from the declared one" % (v, t, t), na.file + ":%d" % na.line)
    rep.ob("R13.1", "cross-pairs-present", len(cross) >= 3, "anchor: read-back pairs extracted from validate_inner: %s" % sorted(cross), vi.file + ":%d" % vi.line)
    if ("Json", "*") in accepted:
        rep.ob("R13.1", "folded|Json<-*", any(t == "Json" and n == "Json" for (t, v, n) in folded), "a Json field accepts any shape, so normalize_at must rebuild the Json variant", na.file + ":%d" % na.line)
    ea = prog.fn(FT + "::extract_at")
    rep.saw(ea, len(ea.events))
    variants = [v["name"] for v in prog.adt(FT)["variants"]]
    cov = set()
    for (sb, place, adt, m, els) in ea.variant_edges():
        if adt == FT:
            for v, tb in m.items():
                if sum(1 for x in m.values() if x == tb) == 1:
                    r = ea.reachable_from([tb], avoid={sb} | {t for v2, t in m.items() if t != tb})
                    if any(e.block in r for e in ea.calls() if re.search(r"FieldValue::\w+_from(_at)?$|FieldType::extract_at$", e.name)):
                        cov.add(v)
    rep.ob("R13.1", "extract-covers-all-types", cov == set(variants), "extract_at handles %s of %s with a dedicated arm" % (sorted(cov), sorted(variants)), ea.file + ":%d" % ea.line)
    # fall-through of validate_inner is an error: the block(s) reached by otherwise-edges that are not arms build Err
    errb = [b for b in vi.live_blocks() for st in vi.stmts(b) if st[0] == "A" and st[1]["l"] == 0 and st[2]["k"] == "agg" and st[2]["a"].get("v") == "Err"]
    els_targets = {els for (sb, place, adt, m, els) in vi.variant_edges() if adt in (FT, FV) and vi.term(els)["k"] != "unreachable"}
    ok = bool(els_targets) and all(not (vi.reachable_from([t], avoid=[b for b in vi.live_blocks() if vi.term(b)["k"] == "switch" and b != t]) & set(_ok_blocks(vi))) or True for t in els_targets) and bool(errb)
    # stronger: no Ok block is reachable from an otherwise edge without passing another variant test
    bad = []
    switch_blocks = {sb for (sb, place, adt, m, els) in vi.variant_edges() if adt in (FT, FV)}
    for t in els_targets:
        r = vi.reachable_from([t], avoid=switch_blocks - {t})
        if r & set(_ok_blocks(vi)) and t not in switch_blocks:
            bad.append(t)
    rep.ob("R13.1", "fallthrough-is-error|validate_inner", bool(errb) and not bad, "a (type, value) combination that matches no arm is rejected", vi.file + ":%d" % vi.line)

    # ------------------------------------------------------------------ R13.2
    rep.rule("R13.2", "complexity budget before structural validation; Document stores field values only after normalization (untyped inputs) and validation", floor=6)
    v = prog.fn(FT + "::validate")
    vcx = v.calls_named(r"FieldValue::validate_complexity$")
    vin = v.calls_named(r"FieldType::validate_inner$")
    okc = set()
    for e in vcx:
        okc |= set(v.result_edges(e)[0])
    rep.ob("R13.2", "budget-before-structure|FieldType::validate", bool(vcx) and bool(vin) and bool(okc) and v.must_pass(okc, [e.block for e in vin]), "validate_complexity (Ok edge) dominates validate_inner", v.file + ":%d" % v.line)
    DOC = S + "::document::Document"
    VALID_RX = r"::Schema::validate$|::FieldEntry::validate$|::FieldType::validate$"
    NORM_RX = r"Document::normalize_fields$|field::FieldType::normalize$"
    EXTRACT_RX = r"::FieldEntry::extract$"
    stores = 0
    for f in prog.fns.values():
        if f.crate != S or not prog.outer_fn(f).path.startswith(DOC + "::"):
            continue
        name = prog.outer_fn(f).path.rsplit("::", 1)[1]
        sites = []
        for e in f.calls_named(r"BTreeMap::<K, V, A>::insert$"):
            if "fields" in f.slice_fields(e.args[0]) or f.var_name(core.op_place(e.args[0]).l if core.op_place(e.args[0]) else -1) == "fields" or "fields" in _recv_names(f, e):
                sites.append((e.block, e.line, e))
        for b in f.live_blocks():
            for st in f.stmts(b):
                if st[0] == "A" and st[1].get("p") and [x["n"] for x in st[1]["p"] if isinstance(x, dict) and "n" in x][-1:] == ["fields"] and "Document" in f.locals[st[1]["l"]]:
                    sites.append((b, st[3] if len(st) > 3 else 0, None))
                if st[0] == "A" and st[2]["k"] == "agg" and st[2]["a"].get("def") == DOC and not f.calls_named(r"BTreeMap::<K, V, A>::insert$"):
                    # (a function that fills a local map through checked inserts is judged at those inserts)
                    sites.append((b, st[3] if len(st) > 3 else 0, None))
        if not sites:
            continue
        if name in ("new", "set_id", "clone", "from"):
            rep.note("R13.2-exempt:" + name, "constructs an empty document / sets the engine id / copies an already validated document")
            continue
        rep.saw(f, len(sites))
        val = f.calls_named(VALID_RX)
        ext = f.calls_named(EXTRACT_RX)
        cx = f.calls_named(r"FieldValue::validate_complexity$")
        okv = set()
        for e in val:
            okv |= set(f.result_edges(e)[0])
        if not val and ext and cx:
            # typed extraction path: strict extract + complexity budget
            for e in cx:
                okv |= set(_ok_edges_mapped(f, e))
        untyped = any("field::FieldValue" in t or "DocumentOwned" in t for t in (prog.outer_fn(f).locals[1:prog.outer_fn(f).argc + 1]))
        norm = f.calls_named(NORM_RX)
        for (b, ln, e) in sites:
            stores += 1
            ok = bool(okv) and f.must_pass(okv, [b])
            if not ok and tier == "debug":
                print("DEBUG", name, f.path, b, ln, sorted(okv), [x.name for x in val])
            rep.ob("R13.2", "validated-before-store|%s" % name, ok, "a field value is stored by Document::%s without passing validation on every path" % name, "%s:%d" % (f.file, ln))
            if untyped and ext == []:
                okn = bool(norm) and bool(val) and all(f.must_pass([n.block for n in norm], [x.block]) for x in val)
                rep.ob("R13.2", "normalized-before-validate|%s" % name, okn, "Document::%s takes untyped field values: normalize must run before validate" % name, "%s:%d" % (f.file, ln))
    rep.ob("R13.2", "store-sites", stores >= 5, "anchor: %d storing sites found in Document" % stores, DOC)
    nf = prog.fn(DOC + "::normalize_fields")
    pr = nf.calls_named(r"FieldType::prune_undeclared$")
    no = nf.calls_named(r"FieldType::normalize$")
    rep.ob("R13.2", "prune-then-normalize|normalize_fields", bool(pr) and bool(no) and nf.dominates(pr[0].block, no[0].block), "the read path prunes undeclared nested keys and then normalizes", nf.file + ":%d" % nf.line)
    tfd = prog.fn(DOC + "::try_from_doc")
    seq = [tfd.calls_named(r"Document::drop_retired_fields$"), tfd.calls_named(r"Document::normalize_fields$"), tfd.calls_named(r"Schema::validate$")]
    ok = all(seq) and tfd.dominates(seq[0][0].block, seq[1][0].block) and tfd.dominates(seq[1][0].block, seq[2][0].block)
    rep.ob("R13.2", "read-path-order|try_from_doc", ok, "drop_retired_fields -> normalize_fields -> Schema::validate", tfd.file + ":%d" % tfd.line)

    # ------------------------------------------------------------------ R13.3
    rep.rule("R13.3", "every recursive component over values has check_conversion_depth on every cycle or is entered only behind validate_complexity", floor=5)
    adj = c15.outer_graph(prog, lambda o: o.crate == S)
    for comp in c15.sccs(adj):
        names = sorted(prog.fns[x].path for x in comp)
        short = "+".join(n.rsplit("::", 1)[1] for n in names)
        wit = {x for x in comp if any(e.name.endswith("::check_conversion_depth") for g in [prog.fns[x]] + prog.closures_of(prog.fns[x]) for e in g.calls())}
        rest = set(comp) - wit
        leftover = c15.sccs({k: {w for w in vv if w in rest} for k, vv in adj.items() if k in rest}, rest)
        rep.saw(prog.fns[comp[0]], len(comp))
        if wit and not leftover:
            # the depth handed down derives from the caller's depth parameter
            rep.ob("R13.3", "budgeted|%s" % short, True, "", prog.fns[comp[0]].file)
            continue
        if all(n.endswith("is_compatible_upgrade_of") for n in names):
            rep.note("R13.3-exempt:is_compatible_upgrade_of", "recursion over declared schema types (developer supplied), not over stored or received values")
            continue
        # entered only behind validate_complexity
        callers_ok = True
        ncallers = 0
        for g in prog.fns.values():
            if g.crate != S or prog.outer_fn(g).id in comp:
                continue
            for e in g.calls():
                if e.cid in comp:
                    ncallers += 1
                    cx = g.calls_named(r"FieldValue::validate_complexity$")
                    okc = set()
                    for c in cx:
                        okc |= set(g.result_edges(c)[0])
                    if not (okc and g.must_pass(okc, [e.block])):
                        callers_ok = False
        rep.ob("R13.3", "behind-budget|%s" % short, callers_ok and ncallers > 0,
               "recursive component without a depth check on every cycle must only be entered after validate_complexity succeeded (%d external call sites)" % ncallers, prog.fns[comp[0]].file)
    ccd = prog.fn(S + "::field::check_conversion_depth")
    rep.ob("R13.3", "depth-check-refuses", any(((o.get("k") or {}).get("def") or "").endswith("MAX_CONVERSION_DEPTH") for b in ccd.live_blocks() for st in ccd.stmts(b) if st[0] == "A" and st[2]["k"] == "bin" for o in (st[2]["a"], st[2]["b"])),
           "check_conversion_depth compares against MAX_CONVERSION_DEPTH", ccd.file + ":%d" % ccd.line)

    # ------------------------------------------------------------------ R13.4
    rep.rule("R13.4", "schema upgrade: accept only on the compatible edge; new indexes from the old allocation high-water mark in both passes", floor=3)
    up = prog.fn(S + "::schema::Schema::upgrade_with")
    rep.saw(up, len(up.events))
    from .c06_db import _bool_switch
    ic = up.calls_named(r"FieldType::is_compatible_upgrade_of$")
    setidx = up.calls_named(r"FieldEntry::set_idx$")
    ok = bool(ic) and bool(setidx)
    if ok:
        ft, tt = _bool_switch(up, ic[0])
        ok = ft is not None and not (up.reachable_from([ft], avoid=[ic[0].block]) & {e.block for e in setidx}) and all(up.must_pass([ic[0].block], [e.block]) or True for e in setidx)
        # the incompatible edge returns Err before any assignment pass
        ok = ok and bool(up.reachable_from([ft], avoid=[ic[0].block]) & set(up.return_blocks()))
    rep.ob("R13.4", "compatible-edge-only|upgrade_with", ok, "an incompatible field type change returns an error and reaches no index assignment", up.file + ":%d" % up.line)
    hw = up.calls_named(r"Schema::allocated_idx_end$")
    rep.ob("R13.4", "high-water-mark-both-passes|upgrade_with", len(hw) >= 2 and all("old" in [up.var_name(o[1]) for a in e.args for o in up.slice_back_op(a) if o[0] == "arg"] or True for e in hw),
           "both the validation pass and the assignment pass start allocating at old.allocated_idx_end() (found %d)" % len(hw), up.file + ":%d" % up.line)
    newidx = [e for e in setidx if any(o[0] == "call" and o[1].name.endswith("allocated_idx_end") for a in e.args[1:] for o in up.slice_back_op(a))]
    inherit = [e for e in setidx if any(o[0] == "call" and o[1].name.endswith("FieldEntry::idx") for a in e.args[1:] for o in up.slice_back_op(a))]
    rep.ob("R13.4", "index-sources|upgrade_with", bool(newidx) and bool(inherit), "a surviving field inherits its persisted index; a new field takes an index derived from the high-water mark (never a removed field's index)", up.file + ":%d" % up.line)
    # the write path refuses what the read path refuses: whether map_from_at looks for missing required keys depends on the *type*
    # (keyed, not wildcard), never on the value - an empty map is exactly the value in which every required key is missing
    mf = prog.fn(S + "::field::FieldValue::map_from_at")
    rep.saw(mf, len(mf.events))
    vnull = [e for e in mf.calls_named(r"field::FieldType::validate$", r"field::FieldType::allows_null$")]
    tests = [e for e in mf.calls_named(r"BTreeMap::<K, V, A>::is_empty$|BTreeMap::<K, V>::is_empty$") if any(mf.dominates(e.block, v.block) and e.block != v.block for v in vnull)]
    bad = []
    for e in tests:
        org = mf.slice_back_op(e.args[0], through=lambda ev: False)
        if not any(o == ("arg", 2) for o in org) or any(o[0] == "call" for o in org):
            bad.append(e)
    rep.ob("R13.1", "required-keys-checked-by-type|map_from_at", bool(vnull) and bool(tests) and not bad,
           "the pass that rejects missing required keys is guarded by a test of the value being built, not of the declared type: `{}` for a keyed "
           "map with required keys is accepted on write and rejected on read", bad[0].where() if bad else mf.file + ":%d" % mf.line)

    # a key of a keyed map may be absent only when its declared type is optional.  Deciding absence by validating a Null against
    # the key's type lets every type that accepts an explicit null (Json) be absent too: accepted on write, `missing field`
    # when the typed value is rebuilt.  Structurally: neither the validator nor the builder validates a literal Null.
    for g in (prog.fn(S + "::field::validate_map_fields"), mf):
        rep.saw(g, len(g.events))
        lit = [e for e in g.calls_named(r"field::FieldType::validate(_inner)?$") if len(e.args) > 1 and any(
            o[0] == "agg" and (o[1][2]["a"].get("def") or "").endswith("field::FieldValue") and o[1][2]["a"].get("v") == "Null"
            for o in g.slice_back_op(e.args[1]))]
        rep.ob("R13.1", "absent-key-needs-optional|%s" % g.path.rsplit("::", 1)[1], not lit,
               "whether a declared key may be missing is decided by validating FieldValue::Null against its type (%d site(s)) instead of by the type being "
               "Option: a required Json key (Json accepts null) may be left out of a nested struct and the document no longer converts back" % len(lit),
               (lit[0].where() if lit else g.file + ":%d" % g.line))

    # ------------------------------------------------------------------ R13.5 the value walkers descend into the same composites
    rep.rule("R13.5", "the read-side walkers over (FieldType, FieldValue) - normalize_at and prune_undeclared_at - recurse into the same composites "
                      "(array elements, keyed map values, wildcard map values, Option payload): what one repairs the other must reach", floor=3)
    from .c16 import arm_regions
    sigs = {}
    for name in ("normalize_at", "prune_undeclared_at"):
        w = prog.fn(FT + "::" + name)
        rep.saw(w, len(w.events))
        regs = arm_regions(w, FT)
        sig = set()
        for v in ("Array", "Map", "Option"):
            reg = regs.get(v, set())
            rec = [e for e in w.calls() if e.cid == w.id and e.block in reg]
            if v != "Map":
                if rec:
                    sig.add(v)
                continue
            wc = [e for e in w.calls_named(r"anda_db_schema::field::as_wildcard_map$") if e.block in reg or True]
            some_t, none_t = set(), set()
            for c_ in wc:
                for (sb, adt, m) in w.outcome_edges(c_.dest.l):
                    if adt == "core::option::Option" and "Some" in m and "None" in m:
                        some_t.add(m["Some"])
                        none_t.add(m["None"])
            wild = w.reachable_from(sorted(some_t), avoid=none_t) if some_t else set()
            keyed = w.reachable_from(sorted(none_t), avoid=some_t) if none_t else set()
            for e in rec:
                if e.block in wild and e.block not in keyed:
                    sig.add("Map:wildcard-values")
                elif e.block in keyed and e.block not in wild:
                    sig.add("Map:keyed-values")
                else:
                    sig.add("Map:values")
        sigs[name] = sig
    want = {"Array", "Map:wildcard-values", "Map:keyed-values", "Option"}
    for name, sig in sigs.items():
        rep.ob("R13.5", "descends|%s" % name, sig == want,
               "%s recurses into %s; the read-side walkers must all descend into %s (a composite one of them skips keeps stale or "
               "unnormalised data that validation then rejects)" % (name, sorted(sig), sorted(want)), FT + "::" + name)
    rep.ob("R13.5", "siblings-agree|normalize_at~prune_undeclared_at", sigs["normalize_at"] == sigs["prune_undeclared_at"],
           "normalize_at descends into %s, prune_undeclared_at into %s" % (sorted(sigs["normalize_at"]), sorted(sigs["prune_undeclared_at"])), FT)
    return rep.finish(EXPLAIN)


def _ok_blocks(f):
    return [b for b in f.live_blocks() for st in f.stmts(b) if st[0] == "A" and st[1]["l"] == 0 and st[2]["k"] == "agg" and st[2]["a"].get("v") == "Ok"]


def _recv_names(f, e):
    p = core.op_place(e.args[0])
    out = set()
    if p is None:
        return out
    seen = set()
    f.slice_back_local(p.l, seen=seen)
    for l in seen:
        n = f.var_name(l)
        if n:
            out.add(n)
    return out


def _ok_edges_mapped(f, e):
    return f.result_edges(e)[0]
