"""C12 — vector search is sound, distance-ordered, and keeps its recall floor.  (DESIGN §4 C12; weakest claim)"""
import re

from lib import core, valueflow
from lib.report import CheckerFault
from . import idxcommon as ix
from .c06_db import _bool_switch

EXPLAIN = (
    "Static analysis over rustc MIR of anda_db_hnsw and anda_db::index::hnsw. Only three structural clauses are decided: R12.1 persistence order nodes -> ids -> metadata -> "
    "in-memory commit on every path of flush_with (cooperative stop and every error return before ids/metadata), removed-node purge only after a successful flush and tombstones retired "
    "only after the delete callback acknowledged; conditional puts for ids and metadata; R12.2 every write of the structural state (entry_point, ids, removed_nodes, dirty_nodes) and both "
    "snapshot functions run under structural_lock; R12.3 result bound and input validation: truncate(top_k) dominates the return of search_attempt, non-finite or wrong-dimension queries are "
    "rejected before search_inner, a neighbour enters the result heap only on the newly-visited edge (no duplicates). "
    "Not decided (the bulk of the property): true distances, ordering by the metric, recall floors and margins, graph repair quality.")

H = "anda_db_hnsw::hnsw::HnswIndex"
STATE = ("entry_point", "ids", "removed_nodes", "dirty_nodes")


def run(rep, tier):
    prog = ix.load()
    rep.not_decided = "distances equal the configured metric, non-decreasing order, recall floors/margins on the documented workloads, graph repair quality after interrupted flushes"
    rep.assumptions = ["rustc MIR", "parking_lot Mutex is a lock", "callers serialize persistence calls (collection exclusive gate)"]

    rep.rule("R12.1", "flush order nodes -> ids -> metadata -> commit; early stop / errors before ids and metadata; purge after successful flush; tombstone retired after acknowledged delete", floor=9)
    f = prog.fn(H + "::flush_with")
    rep.saw(f, len(f.events))
    nf = ix.callback_calls(f, "N")
    idf = ix.callback_calls(f, "I")
    mf = ix.callback_calls(f, "M")
    cm = f.calls_named(r"HnswIndex::commit_flush_snapshot$")
    cap = f.calls_named(r"HnswIndex::capture_flush_snapshot$")
    if not (nf and idf and mf and cm and cap):
        raise CheckerFault("anchor missing in HnswIndex::flush_with (node %d ids %d meta %d commit %d capture %d)" % (len(nf), len(idf), len(mf), len(cm), len(cap)))
    seq = [("capture", cap), ("nodes", nf), ("ids", idf), ("metadata", mf), ("commit", cm)]
    for (na, a), (nb, b) in zip(seq, seq[1:]):
        # the node loop may legitimately run zero times (nothing dirty): only `never after` is required for it
        ok = (na == "nodes" or all(f.must_pass([x.block for x in a], [y.block]) for y in b)) and not f.can_reach([y.block for y in b], [x.block for x in a])
        rep.ob("R12.1", "order|%s<%s" % (na, nb), ok, "%s must precede %s on every path of flush_with" % (na, nb), b[0].where())
    for (na, a), later in ((("nodes", nf), idf + mf + cm), (("ids", idf), mf + cm), (("metadata", mf), cm)):
        errs = set()
        for e in a:
            errs |= set(f.result_edges(e)[1])
        lb = {x.block for x in later}
        rep.ob("R12.1", "err-stops|%s" % na, bool(errs) and not any(f.reachable_from([t], avoid=[x.block for x in nf]) & lb for t in errs),
               "a failed %s write must not reach a later persistence step" % na, a[0].where())
    # cooperative stop: the keep_going == false edge returns before ids/metadata
    stop_ok = False
    for e in nf:
        src = e.poll_dest.l if e.poll_dest is not None else e.dest.l
        der = f.derived_locals([src], call_filter=lambda t: t["f"].get("path") in core.VARIANT_PRESERVING)
        for b in f.live_blocks():
            t = f.term(b)
            if t["k"] == "switch":
                p = core.op_place(t["o"])
                if p is not None and p.l in der and f.locals[p.l] == "bool":
                    vals = dict(t["v"])
                    ft = vals.get("0")
                    if ft is not None and not (f.reachable_from([ft], avoid=[x.block for x in nf]) & {x.block for x in idf + mf + cm}):
                        stop_ok = True
    rep.ob("R12.1", "cooperative-stop|flush_with", stop_ok, "a node callback returning false stops before ids/metadata/commit", nf[0].where())
    w = prog.fn("anda_db::index::hnsw::Hnsw::flush")
    rep.saw(w, len(w.events))
    fw = w.calls_named(r"HnswIndex::flush_with$")
    pg = w.calls_named(r"HnswIndex::purge_removed_nodes$")
    okf = set()
    for e in fw:
        okf |= set(w.result_edges(e)[0])
    rep.ob("R12.1", "purge-after-flush|Hnsw::flush", bool(fw) and bool(pg) and bool(okf) and w.must_pass(okf, [p.block for p in pg]), "removed-node blobs are purged only after flush_with returned Ok", (pg[0].where() if pg else w.file))
    pv = prog.fn("anda_db::index::hnsw::Hnsw::persist_versioned")
    upd = False
    for e in pv.calls_named(r"^anda_db::storage::Storage::put_bytes$"):
        for o in pv.slice_back_op(e.args[3], through=lambda ev: ev.callee in core.TRANSPARENT):
            if o[0] == "agg" and o[1][2]["a"].get("v") == "Update":
                upd = True
    rep.ob("R12.1", "conditional-put|persist_versioned", upd, "ids and metadata are written with PutMode::Update(expected)", pv.file + ":%d" % pv.line)
    uses = 0
    for k in prog.closures_of(prog.fn("anda_db::index::hnsw::Hnsw::flush", body=False)):
        uses += len(k.calls_named(r"Hnsw::persist_versioned$"))
    rep.ob("R12.1", "ids-and-metadata-versioned|Hnsw::flush", uses >= 2, "both the ids and the metadata callbacks go through persist_versioned (found %d)" % uses, w.file + ":%d" % w.line)
    pr = prog.fn(H + "::purge_removed_nodes")
    rep.saw(pr, len(pr.events))
    cb = [e for e in pr.calls() if re.search(r"AsyncFnMut::async_call_mut$|FnMut::call_mut$", e.callee or "")]
    rms = [e for e in pr.calls_named(r"BTreeSet::<T, A>::remove$|HashSet::<T, S>::remove$|::remove$") if "removed_nodes" in ix.recv_fields(pr, e)]
    post = [r for r in rms if cb and pr.dominates(cb[0].block, r.block)]
    ok = bool(cb) and bool(post)
    if ok:
        e = cb[0]
        src = e.poll_dest.l if e.poll_dest is not None else e.dest.l
        der = pr.derived_locals([src], call_filter=lambda t: t["f"].get("path") in core.VARIANT_PRESERVING)
        good = False
        for b in pr.live_blocks():
            t = pr.term(b)
            if t["k"] == "switch":
                p = core.op_place(t["o"])
                if p is not None and p.l in der and pr.locals[p.l] == "bool":
                    ft = dict(t["v"]).get("0")
                    if ft is not None and not (pr.reachable_from([ft], avoid=[cb[0].block]) & {r.block for r in post}):
                        good = True
        errs = pr.result_edges(e)[1]
        ok = good and bool(errs) and not any(pr.reachable_from([t], avoid=[cb[0].block]) & {r.block for r in post} for t in errs)
    rep.ob("R12.1", "tombstone-after-ack|purge_removed_nodes", ok, "a tombstone is retired after the delete callback only on its Ok(true) edge", pr.file + ":%d" % pr.line)

    # dirty marks are retired only if no mutation crossed the I/O window (version still equal to the snapshot's)
    from .idxcommon import retire_under_equality, recv_fields
    for fname in ("commit_flush_snapshot", "store_dirty_nodes"):
        g = prog.fn(H + "::" + fname)
        rep.saw(g, len(g.events))
        rb = [e.block for e in g.calls() if re.search(r"(HashSet|BTreeSet|HashMap|BTreeMap|Vec)(::)?<.*>::(remove|clear|retain|take|pop_first|pop_last|split_off|drain|extract_if)$", e.callee or "")
              and "dirty_nodes" in recv_fields(g, e)]
        # the removal may sit in a closure handed to an iterator adaptor (`ids.iter().for_each(|id| { dirty.remove(id); })`):
        # the retirement then happens where that closure is consumed
        RM = r"(HashSet|BTreeSet|HashMap|BTreeMap|Vec)(::)?<.*>::(remove|clear|retain|take|pop_first|pop_last|split_off|drain|extract_if)$"
        for k_ in prog.closures_of(g):
            if k_.coroutine:
                continue
            if any(re.search(RM, e.callee or "") and ("dirty_nodes" in recv_fields(k_, e) or "dirty" in recv_fields(k_, e)) for e in k_.calls()):
                for e in g.calls():
                    if any(o[0] == "create" and o[1].cid == k_.id for a in e.args for o in g.slice_back_op(a, through=lambda ev: False)):
                        rb.append(e.block)
        if fname == "store_dirty_nodes":
            # only removals that follow the write callback have an I/O window behind them; the synchronous retirement of a
            # mark whose node no longer exists (no external write, structural lock held throughout) needs no re-check
            cbs = [e.block for e in g.calls() if re.search(r"ops::function::Fn(Mut|Once)?::call(_mut|_once)?$|AsyncFn(Mut|Once)?::async_call", e.callee or "")]
            if not cbs:
                raise CheckerFault("store_dirty_nodes: the node write callback was not found")
            rb = [b for b in rb if any(g.dominates(c, b) for c in cbs)]
        retire_under_equality(rep, "R12.1", g, fname, rb, {"version"}, "the removal of a snapshotted id from dirty_nodes")
    rep.rule("R12.2", "structural state (entry_point, ids, removed_nodes, dirty_nodes) written only under structural_lock; snapshot capture/commit hold it", floor=8)
    GT = r"lock_api::mutex::MutexGuard<'_, parking_lot::raw_mutex::RawMutex, \(\)>"
    nwr = 0
    for g in prog.fns.values():
        if g.crate != "anda_db_hnsw" or not prog.outer_fn(g).path.startswith(H + "::"):
            continue
        writes = [e for e in g.calls_named(r"lock_api::rwlock::RwLock::<R, T>::write$") if ix.recv_fields(g, e) & set(STATE)]
        if not writes:
            continue
        outer = prog.outer_fn(g)
        rk = outer.locals[1] if outer.argc else ""
        if rk.startswith("&mut ") or outer.path.rsplit("::", 1)[1] in ("new", "try_new", "new_with_config", "load_metadata"):
            rep.note("R12.2-exempt:" + outer.path.rsplit("::", 1)[1], "exclusive by type (&mut self / constructor)")
            continue
        rep.saw(g, len(writes))
        acq = [e for e in g.calls_named(r"lock_api::mutex::Mutex::<R, T>::lock$") if "structural_lock" in ix.recv_fields(g, e)]
        ins, outs = core.guard_flow(g, acq, GT)
        if not acq and outer.vis == "private":
            # private helper: every caller holds the lock at the call (or is exclusive by type)
            good = True
            ncall = 0
            for h in prog.fns.values():
                if h.crate != "anda_db_hnsw":
                    continue
                for ce in h.calls():
                    if ce.cid == outer.id:
                        ncall += 1
                        ho = prog.outer_fn(h)
                        if ho.argc and ho.locals[1].startswith("&mut "):
                            continue
                        hacq = [e for e in h.calls_named(r"lock_api::mutex::Mutex::<R, T>::lock$") if "structural_lock" in ix.recv_fields(h, e)]
                        hin, _ = core.guard_flow(h, hacq, GT)
                        if not hin.get(ce.block):
                            good = False
            for wv in writes:
                nwr += 1
                fld = sorted(ix.recv_fields(g, wv) & set(STATE))[0]
                rep.ob("R12.2", "helper-callers-hold-lock|%s|%s" % (outer.path.rsplit("::", 1)[1], fld), good and ncall > 0,
                       "private helper writing %s is called without structural_lock held" % fld, wv.where())
            continue
        for wv in writes:
            nwr += 1
            fld = sorted(ix.recv_fields(g, wv) & set(STATE))[0]
            rep.ob("R12.2", "under-structural-lock|%s|%s" % (outer.path.rsplit("::", 1)[1], fld), bool(ins.get(wv.block)),
                   "write access to %s without holding structural_lock" % fld, wv.where())
    for name in ("capture_flush_snapshot", "commit_flush_snapshot"):
        g = prog.fn(H + "::" + name)
        acq = [e for e in g.calls_named(r"lock_api::mutex::Mutex::<R, T>::lock$") if "structural_lock" in ix.recv_fields(g, e)]
        reads = [e for e in g.calls_named(r"lock_api::rwlock::RwLock::<R, T>::(read|write)$") if ix.recv_fields(g, e) & (set(STATE) | {"metadata"})]
        ok = bool(acq) and bool(reads) and all(g.must_pass([a.block for a in acq], [r.block]) for r in reads)
        rep.ob("R12.2", "snapshot-under-lock|%s" % name, ok, "%s reads/writes the structural state only after taking structural_lock" % name, g.file + ":%d" % g.line)

    rep.rule("R12.3", "result bound (truncate(top_k)), query validation before search_inner, no duplicate neighbour in results", floor=5)
    sa = prog.fn(H + "::search_attempt")
    rep.saw(sa, len(sa.events))
    tr = sa.calls_named(r"Vec::<T, A>::truncate$")
    okret = [b for b in sa.live_blocks() for st in sa.stmts(b) if st[0] == "A" and st[1]["l"] == 0 and st[2]["k"] == "agg" and st[2]["a"].get("v") == "Ok"]
    ok = bool(tr) and bool(okret) and sa.must_pass([t.block for t in tr], okret)
    if ok:
        # the truncation length is the top_k parameter (local 3: self, query, top_k)
        p = core.op_place(tr[0].args[1])
        ok = p is not None and any(o == ("arg", 3) for o in sa.slice_back_local(p.l))
    rep.ob("R12.3", "at-most-k|search_attempt", ok, "every Ok return of search_attempt passes results.truncate(top_k)", sa.file + ":%d" % sa.line)
    for name in ("search", "search_f32"):
        g = prog.fn(H + "::" + name)
        rep.saw(g, len(g.events))
        si = g.calls_named(r"HnswIndex::search_inner$")
        fin = [e for e in g.calls_named(r"Iterator::any$")]
        dim = field_reads(g, "dimension")
        ok = bool(si) and bool(fin) and bool(dim) and all(g.must_pass([e.block for e in fin], [s.block]) and g.must_pass(dim, [s.block]) for s in si)
        if ok:
            ft, tt = _bool_switch(g, fin[0])
            ok = tt is not None and not (g.reachable_from([tt]) & {s.block for s in si})
            # the closure checks is_finite
            ok = ok and any(k.calls_named(r"::is_finite$") for k in prog.closures_of(g))
        rep.ob("R12.3", "validated-query|%s" % name, ok, "non-finite and wrong-dimension queries are rejected before search_inner", g.file + ":%d" % g.line)
    # the f32 entry point hands the caller's query to the search as it is: reported distances are the metric between *that* query and
    # the stored vectors; any conversion on the way (e.g. rounding it through bf16) changes every reported distance
    g = prog.fn(H + "::search_f32")
    si = g.calls_named(r"HnswIndex::search_inner$")
    origins = [o for s_ in si for o in g.slice_back_op(s_.args[1], through=lambda ev: False)]
    rep.ob("R12.3", "query-unconverted|search_f32", bool(si) and bool(origins) and all(o == ("arg", 2) for o in origins),
           "the query given to search_inner is not the caller's slice itself but the result of %s" % sorted({(o[1].name if o[0] == "call" else o[0]) for o in origins if o != ("arg", 2)}),
           si[0].where() if si else g.file)
    # what a flush can write, a load accepts: cached edge distances are whatever the configured metric produced (InnerProduct is
    # -dot, so negative for most edges); the loader may reject a cached distance for being non-finite, never for its sign or size
    vl = prog.fns_matching(r"^anda_db_hnsw::hnsw::validate_loaded_node$|HnswIndex::validate_loaded_node$")
    if not vl:
        raise CheckerFault("anchor missing: validate_loaded_node")
    bodies = [vl[0]] + prog.closures_of(vl[0])
    fin = [e for b_ in bodies for e in b_.calls_named(r"::is_finite$")]
    cmp_sites = []
    for b_ in bodies:
        for blk in b_.live_blocks():
            for st in b_.stmts(blk):
                if st[0] == "A" and st[2]["k"] == "bin" and st[2]["op"] in ("Lt", "Le", "Gt", "Ge"):
                    tys = {b_.locals[core.op_place(o).l] for o in (st[2]["a"], st[2]["b"]) if core.op_place(o) is not None} | \
                          {(core.op_const(o) or {}).get("ty") for o in (st[2]["a"], st[2]["b"]) if core.op_const(o) is not None}
                    if tys & {"f32", "f64", "half::bfloat::bf16"}:
                        cmp_sites.append("%s:%d" % (b_.file, st[3] if len(st) > 3 else b_.line))
    rep.saw(vl[0], len(fin))
    rep.ob("R12.3", "loader-accepts-every-metric|validate_loaded_node", bool(fin) and not cmp_sites,
           "the loader compares a cached edge distance with a bound (sign / range test); distances are metric-dependent (InnerProduct "
           "yields negative ones), only non-finite values may be refused", cmp_sites[0] if cmp_sites else vl[0].file + ":%d" % vl[0].line)
    sl = prog.fn(H + "::search_layer")
    rep.saw(sl, len(sl.events))
    vis = [e for e in sl.calls_named(r"HashSet::<T, S>::insert$|HashSet::<T, S, A>::insert$")]
    pushes = [e for e in sl.calls_named(r"BinaryHeap::<T, A>::push$|BinaryHeap::<T>::push$") if "OrderedFloat<f32>, u64, u8)" in sl.locals[core.op_place(e.args[0]).l] and "Reverse" not in sl.locals[core.op_place(e.args[0]).l]]
    loop_pushes = [p for p in pushes if any(sl.dominates(n.block, p.block) for n in sl.calls_named(r"Iterator::next$"))]
    ok = bool(vis) and bool(loop_pushes)
    for p in loop_pushes:
        good = False
        for v in vis:
            ft, tt = _bool_switch(sl, v)
            if tt is not None and sl.dominates(tt, p.block) and p.block not in sl.reachable_from([ft], avoid=[v.block]):
                good = True
        ok = ok and good
    rep.ob("R12.3", "no-duplicate-result|search_layer", ok, "a neighbour is pushed to the result heap only on the newly-visited edge of visited.insert", sl.file + ":%d" % sl.line)
    sinner = prog.fn(H + "::search_inner")
    rep.ob("R12.3", "bounded-retry|search_inner", bool(sinner.calls_named(r"HnswIndex::search_attempt$")) and _bounded_retry(sinner),
           "the NotFound retry loop is bounded by SEARCH_MAX_ATTEMPTS", sinner.file + ":%d" % sinner.line)
    # ------------------------------------------------------------------ R12.4 what the audit found
    rep.rule("R12.4", "writer and loader agree on the cached edge distance (the loader refuses a non-finite one, so every conversion of a computed distance "
             "into the cached bf16 is followed by a finiteness test); both neighbour-selection strategies drop candidates that are no longer nodes", floor=4)
    hn_fns = [f for f in prog.fns.values() if f.crate == "anda_db_hnsw" and f.file.endswith("/hnsw.rs")]
    loader_checks = any(re.search(r"bf16::is_finite$", e.name or "") for f in hn_fns if prog.outer_fn(f).path.endswith("validate_loaded_node")
                        for g in [f] + list(prog.closures_of(f)) for e in g.events)
    if not loader_checks:
        raise CheckerFault("anchor missing: validate_loaded_node testing edge distances with bf16::is_finite")
    nconv = 0
    for f in hn_fns:
        for e in f.calls():
            if not (e.name or "").endswith("bf16::from_f32") or not e.args:
                continue
            pl = core.op_place(e.args[0])
            # a *computed distance*: an f32 that is not a component of the caller's vector (those conversions are fn-item maps)
            if pl is None or f.locals[pl.l].strip() != "f32":
                continue
            nconv += 1
            guarded = any(re.search(r"bf16::is_finite$", q.name or "") and (f.dominates(e.block, q.block)) and any(
                o[0] == "call" and o[1] is e for a in q.args for o in f.slice_back_op(a)) for q in f.calls())
            rep.ob("R12.4", "edge-distance-finite-on-write|%s|line-group-%d" % (prog.outer_fn(f).path.rsplit("::", 1)[1], nconv), guarded,
                   "a computed distance is cached on an edge as bf16::from_f32(dist) with no finiteness test, while validate_loaded_node refuses a node whose "
                   "cached edge distance is not finite: with vectors around 1e19 the f32 kernels overflow, flush succeeds and load_all then rejects its own "
                   "output (`Loaded node 1 contains non-finite edge distance`) - through Hnsw::bootstrap the collection cannot be opened", e.where())
    if nconv < 3:
        raise CheckerFault("anchor missing: conversions of a computed distance into a cached bf16 (found %d, counted 3)" % nconv)
    sn = [f for f in hn_fns if f.path.endswith("HnswIndex::select_neighbors")]
    if not sn:
        raise CheckerFault("anchor missing: HnswIndex::select_neighbors")
    g = sn[0]
    rep.saw(g, len(g.events))
    from .c16 import arm_regions
    regs = arm_regions(g, "anda_db_hnsw::hnsw::SelectNeighborsStrategy")
    if len(regs) < 2:
        raise CheckerFault("anchor missing: the strategy match of select_neighbors (%s)" % sorted(regs))
    shared = set.intersection(*[set(b) for b in regs.values()]) if regs else set()
    for v, bl in sorted(regs.items()):
        own = set(bl) - shared
        live = any(re.search(r"contains_key$|HashMapRef.*::get$|::contains$", e.name or "") and (e.block in own or e.call_block in own) for e in g.calls()) or any(
            any(re.search(r"contains_key$|HashMapRef.*::get$", q.name or "") for q in k.calls())
            for c in g.creates() if c.block in own for k in [prog.fns.get(c.cid)] if k is not None)
        rep.ob("R12.4", "strategy-drops-removed-candidates|%s" % v, live,
               "the %s branch of select_neighbors selects among the candidates without asking whether they are still nodes (its sibling does): under heavy "
               "deletion 57-66%% of the edge slots hold ids of removed nodes and recall falls below the documented floors on 7-9 of 24 seeds" % v,
               g.file + ":%d" % g.line)

    return rep.finish(EXPLAIN)


def field_reads(f, field):
    out = set()
    for b in f.live_blocks():
        for st in f.stmts(b):
            if st[0] != "A":
                continue
            places = [o.get("c") or o.get("m") for o in core._rvalue_operands(st[2])]
            if st[2]["k"] in ("ref", "cfd"):
                places.append(st[2]["p"])
            for pl in places:
                if pl and any(isinstance(e, dict) and e.get("n") == field for e in (pl.get("p") or [])):
                    out.add(b)
    return out


def _bounded_retry(f):
    for b in f.live_blocks():
        for st in f.stmts(b):
            if st[0] == "A" and st[2]["k"] == "bin" and st[2]["op"] in ("Lt", "Le", "Ge", "Gt"):
                for o in (st[2]["a"], st[2]["b"]):
                    if ((o.get("k") or {}).get("def") or "").endswith("SEARCH_MAX_ATTEMPTS"):
                        return True
    return False
