"""C07 — store wrappers behave as a conforming object store with real CAS.  (DESIGN §4 C07)

Only the CAS half is decided: precondition-before-write, fresh read of the commit point,
per-commit freshness of the token, and which document the reported metadata comes from."""
import re

from lib import core, valueflow
from lib.report import CheckerFault
from . import ostore
from .c06_db import _bool_switch
from .c08 import fcalls, find_body, _upvar_bool_switches, _arg_is_some

EXPLAIN = (
    "Static analysis over rustc MIR of anda_object_store: R07.1 on the PutMode::Update edge the precondition check (and, for the encrypted store, metadata authentication) "
    "precedes the payload write and a missing document is refused; check_update_version cannot return Ok on the token-mismatch or missing-token edges; R07.2 the commit protocol "
    "checks preconditions against a document freshly read from the backend inside the per-key section; create refuses an existing document and forwards PutMode::Create when absent; "
    "R07.3 every e_tag / generation written into either Metadata type derives from a per-commit fresh source (new_generation() or rand_bytes()), through hashers, captured variables, "
    "uploader fields and the copy protocol; R07.4 metadata reported to callers (get, list) takes size, e_tag and last_modified from the commit point and reports no version. "
    "Not decided (not applicable to this family): equivalence with the reference store over call sequences, range arithmetic, precondition precedence, listing contents.")

META_ADTS = ("anda_object_store::Metadata", "anda_object_store::encryption::Metadata")
FRESH_RX = re.compile(r"anda_object_store::sidecar::new_generation$|anda_object_store::encryption::rand_bytes$")


class Fresh:
    """Which locals of a function hold a value derived from a per-commit fresh source."""

    def __init__(self, prog):
        self.prog = prog
        self.cache = {}
        self.fresh_fields = self._uploader_fresh_fields()
        self.copy_payload_fresh = self._copy_payload_returns_fresh()

    def _start(self, f):
        st = set()
        for e in f.calls():
            if FRESH_RX.search(e.name):
                st.add(e.dest.l)
            if e.name.endswith("SidecarStore::<T, M>::copy_payload") and self.copy_payload_fresh:
                # only the second component (the generation) of the returned tuple is fresh
                src = e.poll_dest.l if e.poll_dest is not None else e.dest.l
                der = f.derived_locals([src], call_filter=lambda t: t["f"].get("path") == core.TRY_BRANCH)
                for b in f.live_blocks():
                    for s2 in f.stmts(b):
                        if s2[0] == "A" and s2[2]["k"] == "use":
                            pl = s2[2]["o"].get("m") or s2[2]["o"].get("c")
                            if pl and pl["l"] in der and pl.get("p"):
                                last = pl["p"][-1]
                                if isinstance(last, dict) and last.get("n") == "1" and f.locals[s2[1]["l"]] == "alloc::string::String":
                                    st.add(s2[1]["l"])
        # captured variables that are fresh in the creating function
        parent = self.prog.fns.get(f.parent) if f.parent else None
        if parent is not None:
            pf = self.locals(parent)
            for ce in parent.creates():
                if ce.cid != f.id:
                    continue
                for i, uv in enumerate(f.upvars):
                    if i < len(ce.ops):
                        p = core.op_place(ce.ops[i])
                        if p is not None and p.l in pf:
                            st |= self._upvar_reads(f, uv["n"])
        # uploader fields initialised from fresh values
        outer = self.prog.outer_fn(f)
        if outer.impl_adt in self.fresh_fields:
            for fld in self.fresh_fields[outer.impl_adt]:
                st |= self._field_reads(f, fld)
        return st

    def _upvar_reads(self, f, name):
        out = set()
        for b in f.live_blocks():
            for st in f.stmts(b):
                if st[0] != "A":
                    continue
                for pl in _places(st[2]):
                    if pl["l"] == 1 and any(isinstance(e, dict) and e.get("n") == name for e in (pl.get("p") or [])):
                        out.add(st[1]["l"])
        return out

    def _field_reads(self, f, fld):
        out = set()
        for b in f.live_blocks():
            for st in f.stmts(b):
                if st[0] != "A":
                    continue
                for pl in _places(st[2]):
                    if any(isinstance(e, dict) and e.get("n") == fld for e in (pl.get("p") or [])):
                        out.add(st[1]["l"])
        return out

    def locals(self, f):
        if f.id not in self.cache:
            self.cache[f.id] = set()      # break recursion
            self.cache[f.id] = f.derived_locals(list(self._start(f)), mut_args=True)
        return self.cache[f.id]

    def _uploader_fresh_fields(self):
        out = {}
        for f in self.prog.fns.values():
            if not ostore.in_scope(f) or not f.path.endswith("put_multipart_opts::{closure#0}"):
                continue
            st = {e.dest.l for e in f.calls() if FRESH_RX.search(e.name)}
            der = f.derived_locals(list(st), mut_args=True)
            for b in f.live_blocks():
                for s in f.stmts(b):
                    if s[0] == "A" and s[2]["k"] == "agg" and "Uploader" in (s[2]["a"].get("def") or ""):
                        for name, o in zip(s[2]["a"]["fields"], s[2]["ops"]):
                            p = core.op_place(o)
                            if p is not None and p.l in der and name not in ("inner", "_in_flight", "store"):
                                out.setdefault(s[2]["a"]["def"], set()).add(name)
        return out

    def _copy_payload_returns_fresh(self):
        f = self.prog.fn(ostore.SC + "::copy_payload")
        st = {e.dest.l for e in f.calls() if FRESH_RX.search(e.name)}
        der = f.derived_locals(list(st))
        for b in f.live_blocks():
            for s in f.stmts(b):
                if s[0] == "A" and s[2]["k"] == "agg" and s[2]["a"]["t"] == "tuple" and len(s[2]["ops"]) == 3:
                    p = core.op_place(s[2]["ops"][1])
                    if p is not None and p.l in der:
                        return True
        return False


def _hasher_root(f, o, depth=0):
    """Origin of a hasher operand: ("new", Event of Digest::new) | ("field", name) | None, through borrows, moves and clones."""
    p = core.op_place(o)
    if p is None or depth > 16:
        return None
    flds = p.fields()
    if flds:
        return ("field", flds[-1])
    ds = f.defs.get(p.l, [])
    if len(ds) != 1:
        return None
    (b, i, kind, data) = ds[0]
    if kind == "call":
        f.events
        ev = f._ev_at.get(b)
        if ev is None:
            return None
        if re.search(r"digest::digest::Digest>?::new$", ev.name or ""):
            return ("new", ev)
        if re.search(r"clone::Clone>?::clone$|Deref(Mut)?>?::deref(_mut)?$", ev.name or "") and ev.args:
            return _hasher_root(f, ev.args[0], depth + 1)
        return None
    rv = data[2]
    if rv["k"] in ("use", "cast"):
        return _hasher_root(f, rv["o"], depth + 1)
    if rv["k"] in ("ref", "rawptr"):
        pl = core.Place(rv["p"])
        if pl.fields():
            return ("field", pl.fields()[-1])
        return _hasher_root(f, {"c": rv["p"]}, depth + 1)
    return None


def _seeded(fr, f, new_ev, at_block):
    """Some Digest::update on the hasher created by `new_ev`, fed with a fresh value, dominates `at_block`."""
    fresh = set(fr.locals(f))
    if f.path.endswith("derive_copy_e_tag"):
        fresh |= f.derived_locals([1])          # its `generation` parameter is the fresh value (checked at the call sites)
    ups = [u for u in f.calls_named(r"digest::digest::Digest>?::update$")
           if (lambda r: r and r[0] == "new" and r[1] is new_ev)(_hasher_root(f, u.args[0]))]
    if not ups:
        return False, "the hasher is never updated before use"
    for u in ups:
        a = core.op_place(u.args[1]) if len(u.args) > 1 else None
        if a is not None and a.l in fresh and f.dominates(u.block, at_block) and u.block != at_block:
            # nothing else may be fed in before the seed on some path? not required: any dominating fresh update makes the digest unique
            return True, ""
    return False, "no update with a fresh value (new_generation / rand_bytes of this commit) dominates the use"


def _places(rv):
    out = []
    for o in core._rvalue_operands(rv):
        p = o.get("c") or o.get("m")
        if p:
            out.append(p)
    if rv["k"] in ("ref", "rawptr", "cfd", "discr"):
        out.append(rv["p"])
    return out


def run(rep, tier):
    prog = ostore.load()
    rep.not_decided = ("equivalence with the reference in-memory store over call sequences, range arithmetic, precondition precedence, listings - "
                       "not applicable to static analysis; only the CAS clause is claimed")
    rep.assumptions = ["rustc MIR", "SHA3 over distinct inputs gives distinct tokens", "new_generation()/rand_bytes() are fresh per call"]
    events = ostore.backend_events(prog, ostore.WRITE_METHODS)

    # ------------------------------------------------------------------ R07.1
    rep.rule("R07.1", "PutMode::Update: precondition check (and metadata authentication) before the payload write; missing document refused; token mismatch cannot return Ok", floor=5)
    for w in ("MetaStore", "EncryptedStore"):
        root = prog.fn({"MetaStore": "<anda_object_store::MetaStore<T> as object_store::ObjectStore>::put_opts",
                        "EncryptedStore": "<anda_object_store::encryption::EncryptedStore<T> as object_store::ObjectStore>::put_opts"}[w], body=False)
        K = find_body(prog, root, lambda b: any(ff is b and m == "put_opts" for (ff, e, m) in events))
        if K is None:
            raise CheckerFault("anchor missing: payload-writing closure of %s::put_opts" % w)
        rep.saw(K, len(K.events))
        W = [e for (ff, e, m) in events if ff is K and m == "put_opts"]
        upd = [m["Update"] for (sb, place, adt, m, els) in K.variant_edges() if adt == "object_store::PutMode" and "Update" in m]
        chk = K.calls_named(r"anda_object_store::check_update_version$")
        okc = set()
        for c in chk:
            okc |= set(K.result_edges(c)[0])
        ok = bool(upd) and bool(chk) and bool(W) and bool(okc) and not any(K.reachable_from([u], avoid=okc) & {x.block for x in W} for u in upd)
        rep.ob("R07.1", "check-before-write|%s::put_opts" % w, ok,
               "on the PutMode::Update edge every path to the payload write passes the Ok edge of check_update_version (a missing document is refused)", (W[0].where() if W else K.file))
        if w == "EncryptedStore":
            ver = K.calls_named(r"EncryptedStore::<T>::verify_metadata$|encryption::verify_metadata$")
            okv = set()
            for v in ver:
                okv |= set(K.result_edges(v)[0])
            ok = bool(ver) and bool(okv) and all(K.must_pass(okv, [c.block]) for c in chk)
            rep.ob("R07.1", "authenticate-before-check|EncryptedStore::put_opts", ok, "the current document is authenticated before its token is compared", (ver[0].where() if ver else K.file))
    cuv = prog.fn("anda_object_store::check_update_version")
    rep.saw(cuv, len(cuv.events))
    okret = [b for b in cuv.live_blocks() for st in cuv.stmts(b) if st[0] == "A" and st[1]["l"] == 0 and st[2]["k"] == "agg" and st[2]["a"].get("v") == "Ok"]
    cmps = cuv.calls_named(r"PartialEq.*::(ne|eq)$")
    mism = []
    for c in cmps:
        flds = set()
        for a in c.args:
            flds |= cuv.slice_fields(a)
            p = core.op_place(a)
        srcs = set()
        for a in c.args:
            for o in cuv.slice_back_op(a):
                if o[0] == "arg":
                    srcs.add(o[1])
        if 2 in srcs:          # current_e_tag parameter
            ft, tt = _bool_switch(cuv, c)
            mism.append(tt if c.callee.endswith("::ne") else ft)
    ok = bool(mism) and bool(okret) and not any(t is None or (cuv.reachable_from([t]) & set(okret)) for t in mism)
    rep.ob("R07.1", "mismatch-never-ok|check_update_version", ok, "the token-mismatch edge of the e_tag comparison cannot reach the Ok return", cuv.file + ":%d" % cuv.line)
    none_edges = [m["None"] for (sb, place, adt, m, els) in cuv.variant_edges() if adt == "core::option::Option" and "None" in m
                  and "e_tag" in (set(place.fields()) | cuv.slice_fields({"c": {"l": place.l}}))]
    ok = bool(none_edges) and not any(cuv.reachable_from([t]) & set(okret) for t in none_edges)
    rep.ob("R07.1", "missing-token-never-ok|check_update_version", ok, "a conditional update without an e_tag is refused", cuv.file + ":%d" % cuv.line)

    # ------------------------------------------------------------------ R07.2
    rep.rule("R07.2", "commit protocol: fresh backend read inside the per-key section precedes f(..); create refuses an existing document; PutMode::Create forwarded when absent", floor=4)
    K = find_body(prog, prog.fn(ostore.SC + "::update_meta_with", body=False), lambda b: any(ff is b and m == "put_opts" for (ff, e, m) in events))
    rep.saw(K, len(K.events))
    fc = fcalls(K)
    fetch = K.calls_named(r"SidecarStore::<T, M>::fetch_meta_bytes$")
    rep.ob("R07.2", "fresh-read|update_meta_with", bool(fetch) and len(fc) >= 2 and all(K.must_pass([x.block for x in fetch], [c.block]) for c in fc),
           "preconditions are evaluated against a document fetched from the backend in the section", K.file + ":%d" % K.line)
    rep.ob("R07.2", "no-cache-read|update_meta_with", not K.calls_named(r"moka::future::cache::Cache::<K, V, S>::get$") and not _entry_value_used(K),
           "the (possibly lagging) cache entry is not consulted for the current document", K.file + ":%d" % K.line)
    # in-section: the closure that contains the commit is the one handed to and_try_compute_with
    um = prog.fn(ostore.SC + "::update_meta_with")
    comp = um.calls_named(r"and_try_compute_with$")
    ent = um.calls_named(r"Cache::<K, V, S>::entry$")
    rep.ob("R07.2", "per-key-section|update_meta_with", bool(comp) and bool(ent) and _closure_flows_to(prog, um, K, comp[0]),
           "the read-check-write sequence runs inside meta_cache.entry(location).and_try_compute_with", (comp[0].where() if comp else um.file))
    creads = _upvar_bool_switches(K, "create")
    some_calls = [c for c in fc if _arg_is_some(K, c)]
    ok = bool(some_calls) and bool(creads)
    for c in some_calls:
        ok = ok and any(K.dominates(ft, c.block) and c.block not in K.reachable_from([tt]) for (sb, ft, tt) in creads)
    rep.ob("R07.2", "create-iff-absent|update_meta_with", ok, "create: an existing decodable document yields AlreadyExists before f runs", K.file + ":%d" % K.line)
    # the put's mode operand derives from the local that receives PutMode::Create
    mput = [e for (ff, e, m) in events if ff is K and m == "put_opts"]
    ok = False
    for p in mput:
        for o in K.slice_back_op(p.args[3], through=lambda ev: ev.callee in core.TRANSPARENT):
            if o[0] == "agg" and o[1][2]["a"].get("def") == "object_store::PutMode":
                ok = True
    rep.ob("R07.2", "create-mode-forwarded|update_meta_with", ok, "the metadata put's PutOptions.mode comes from the computed meta_mode (Overwrite / Create)", (mput[0].where() if mput else K.file))

    # ------------------------------------------------------------------ R07.3 freshness of the token
    rep.rule("R07.3", "every e_tag / generation stored into a Metadata document derives from new_generation() or rand_bytes() of this commit", floor=12)
    fr = Fresh(prog)
    rep.note("fresh_uploader_fields", {k: sorted(v) for k, v in fr.fresh_fields.items()})
    nsites = 0
    for f in prog.fns.values():
        if not ostore.in_scope(f):
            continue
        if f.impl_trait in ("core::clone::Clone",) or "serde" in f.path or "serde" in (f.impl_trait or ""):
            continue        # derive-generated field-by-field copies / decoders, not commits
        fl = None
        for b in f.live_blocks():
            for st in f.stmts(b):
                if st[0] != "A":
                    continue
                rv = st[2]
                sites = []
                if rv["k"] == "agg" and rv["a"].get("def") in META_ADTS:
                    for name, o in zip(rv["a"]["fields"], rv["ops"]):
                        if name in ("e_tag", "generation"):
                            sites.append((name, o))
                elif st[1].get("p") and rv["k"] in ("use", "agg"):
                    last = [e for e in st[1]["p"] if isinstance(e, dict) and "n" in e]
                    base_ty = f.locals[st[1]["l"]]
                    if last and last[-1]["n"] in ("e_tag", "generation") and len(last) == 1 and any(a in base_ty for a in META_ADTS):
                        # field assignment `meta.e_tag = Some(..)`
                        ops = core._rvalue_operands(rv)
                        for o in ops:
                            sites.append((last[-1]["n"], o))
                for (name, o) in sites:
                    if fl is None:
                        fl = fr.locals(f)
                    nsites += 1
                    p = core.op_place(o)
                    ok = p is not None and p.l in fl
                    outer = prog.outer_fn(f).path.replace("anda_object_store::", "")
                    rep.saw(f, 1)
                    rep.ob("R07.3", "fresh|%s|%s" % (name, outer), ok,
                           "Metadata.%s written in %s does not derive from a per-commit fresh source (new_generation / rand_bytes): a repeated token lets a stale conditional update pass" % (name, outer),
                           "%s:%d" % (f.file, st[3] if len(st) > 3 else 0))
    # must-seeded: may-flow is not enough for the digest tokens - "the ciphertext depends on the nonce" is true only when
    # there is ciphertext; with an empty payload no data update runs and an unseeded hasher yields a constant token.
    # Every hasher whose digest is finalized is therefore seeded, on every path (dominance), with a per-commit fresh value.
    nfin = 0
    for f in prog.fns.values():
        if not ostore.in_scope(f):
            continue
        for F in f.calls_named(r"digest::digest::Digest>?::finalize$"):
            nfin += 1
            outer = prog.outer_fn(f)
            short = outer.path.replace("anda_object_store::", "")
            root = _hasher_root(f, F.args[0])
            ok, why = False, "hasher origin not recognised"
            if root and root[0] == "new":
                ok, why = _seeded(fr, f, root[1], F.block)
            elif root and root[0] == "field":
                adt = outer.impl_adt
                ctors = []
                for g in prog.fns.values():
                    if not ostore.in_scope(g):
                        continue
                    for b in g.live_blocks():
                        for st in g.stmts(b):
                            if st[0] == "A" and st[2]["k"] == "agg" and st[2]["a"].get("def") == adt and root[1] in st[2]["a"].get("fields", []):
                                ctors.append((g, b, st[2]["ops"][st[2]["a"]["fields"].index(root[1])]))
                ok, why = bool(ctors), "no constructor of %s found" % adt
                for (g, b, o) in ctors:
                    r2 = _hasher_root(g, o)
                    if not (r2 and r2[0] == "new"):
                        ok, why = False, "field %s of %s is not initialised from a local hasher" % (root[1], adt)
                        break
                    ok2, why2 = _seeded(fr, g, r2[1], b)
                    if not ok2:
                        ok, why = False, "%s (constructor in %s)" % (why2, prog.outer_fn(g).path.replace("anda_object_store::", ""))
                        break
            rep.ob("R07.3", "token-hasher-seeded|%s" % short, ok,
                   "the digest that becomes a CAS token must be seeded with a per-commit fresh value on every path before anything else: %s" % why, F.where())
    if nfin < 5:
        rep.fault("R07.3: only %d finalize sites found (expected the 5 token digests)" % nfin)
    # one fresh commit timestamp per commit: every function that commits through update_meta_with stamps the document it
    # publishes with new_commit_timestamp_ms() inside the commit callback, on every path to its Ok return (a copy that keeps the
    # source's committed_at_ms publishes a target whose last_modified lies in the past: date preconditions answer for the wrong commit)
    nts = 0
    for f in prog.fns.values():
        if not ostore.in_scope(f) or not f.calls_named(r"SidecarStore::<T, M>::update_meta_with$"):
            continue
        nts += 1
        ok = False
        site = f.file + ":%d" % f.line
        for b_ in prog.closures_of(f):
            for c in b_.calls_named(r"anda_object_store::(sidecar::)?new_commit_timestamp_ms$"):
                der = b_.derived_locals([c.dest.l])
                stamped = False
                for blk in b_.live_blocks():
                    for st in b_.stmts(blk):
                        if st[0] != "A":
                            continue
                        rv = st[2]
                        if rv["k"] == "agg" and rv["a"].get("def") in META_ADTS:
                            for name, o in zip(rv["a"]["fields"], rv["ops"]):
                                p_ = core.op_place(o)
                                if name == "committed_at_ms" and p_ is not None and p_.l in der:
                                    stamped = True
                        elif st[1].get("p"):
                            last = [e for e in st[1]["p"] if isinstance(e, dict) and "n" in e]
                            if last and last[-1]["n"] == "committed_at_ms" and any(core.op_place(o) is not None and core.op_place(o).l in der
                                                                                    for o in core._rvalue_operands(rv)):
                                stamped = True
                okret = [blk for blk in b_.live_blocks() for st in b_.stmts(blk) if st[0] == "A" and st[1]["l"] == 0 and not st[1].get("p")
                         and st[2]["k"] == "agg" and st[2]["a"].get("def") == "core::result::Result" and st[2]["a"].get("v") == "Ok"]
                if stamped and okret and b_.must_pass([c.block], okret):
                    ok = True
                site = c.where()
        rep.saw(f, 1)
        rep.ob("R07.3", "fresh-commit-timestamp|%s" % prog.outer_fn(f).path.replace("anda_object_store::", ""), ok,
               "the document committed here is not stamped with new_commit_timestamp_ms() inside its commit callback on every path "
               "(it would carry another commit's timestamp)", site)
    if nts < 6:
        rep.fault("R07.3: only %d committing functions found" % nts)
    # derive_copy_e_tag mixes the generation in
    d = prog.fn("anda_object_store::derive_copy_e_tag")
    der = d.derived_locals([1], mut_args=True)
    ret_ok = 0 in der or any(core.op_place(a) is not None and core.op_place(a).l in der for e in d.calls_named(r"Engine::encode$") for a in e.args)
    rep.ob("R07.3", "copy-token-mixes-generation|derive_copy_e_tag", ret_ok, "the copy token is computed from the fresh generation", d.file + ":%d" % d.line)

    # ------------------------------------------------------------------ R07.4 reported metadata
    rep.rule("R07.4", "reported ObjectMeta: size/e_tag/last_modified from the commit point, version None (get_opts of both wrappers, listing_entry)", floor=3)
    le = prog.fn(ostore.SC + "::listing_entry")
    rep.saw(le, len(le.events))
    ok = False
    for b in le.live_blocks():
        for st in le.stmts(b):
            if st[0] == "A" and st[2]["k"] == "agg" and st[2]["a"].get("def") == "object_store::ObjectMeta":
                m = dict(zip(st[2]["a"]["fields"], st[2]["ops"]))
                srcs = {}
                for k, o in m.items():
                    srcs[k] = {x[1].name.rsplit("::", 1)[1] for x in le.slice_back_op(o, through=lambda ev: ev.callee in core.TRANSPARENT or ev.callee.endswith("Option::<T>::map")
                                                                                        or ev.callee.endswith("unwrap_or")) if x[0] == "call"}
                vnone = any(x[0] == "agg" and x[1][2]["a"].get("v") == "None" for x in le.slice_back_op(m["version"], through=lambda ev: False))
                ok = "size" in srcs.get("size", ()) and "e_tag" in srcs.get("e_tag", ()) and "logical_last_modified" in srcs.get("last_modified", ()) and vnone
    rep.ob("R07.4", "listing-from-commit-point|listing_entry", ok, "listed size, e_tag and last_modified come from the decoded document; version is None", le.file + ":%d" % le.line)
    for w in ("MetaStore", "EncryptedStore"):
        g = ostore.wrapper_fn(prog, w, "get_opts")
        rep.saw(g, len(g.events))
        assigned = {}
        for b in g.live_blocks():
            for st in g.stmts(b):
                if st[0] == "A" and st[1].get("p"):
                    names = [e["n"] for e in st[1]["p"] if isinstance(e, dict) and "n" in e]
                    ty = g.locals[st[1]["l"]]
                    if names and names[-1] in ("size", "e_tag", "last_modified", "version", "location") and ("object_store::GetResult" in ty or "object_store::ObjectMeta" in ty):
                        assigned.setdefault(names[-1], []).append((b, st))
        need = {"size", "e_tag", "last_modified", "version"}
        ok = need <= set(assigned)
        if ok:
            # size comes from the metadata document (field `size` of the Arc<Metadata> returned by get_meta)
            b, st = assigned["size"][0]
            flds = set()
            for o in core._rvalue_operands(st[2]):
                flds |= g.slice_fields(o)
                if (o.get("c") or o.get("m")):
                    flds |= set(core.Place(o.get("c") or o.get("m")).fields())
            ok = "size" in flds
            b, st = assigned["version"][0]
            vn = st[2]["k"] == "agg" and st[2]["a"].get("v") == "None"
            for o in core._rvalue_operands(st[2]):
                for x in g.slice_back_op(o, through=lambda ev: False):
                    if x[0] == "agg" and x[1][2]["a"].get("v") == "None":
                        vn = True
            ok = ok and vn
        rep.ob("R07.4", "get-from-commit-point|%s::get_opts" % w, ok,
               "get_opts overwrites size, e_tag, last_modified from the commit point and clears the version (assigned: %s)" % sorted(assigned), g.file + ":%d" % g.line)
    # ------------------------------------------------------------------ R07.6 read preconditions are evaluated for the commit that is returned
    rep.rule("R07.6", "get_opts: the options handed to check_get_preconditions are a fresh copy of the caller's in every iteration of the stale-pointer retry "
                      "(the check consumes the conditions it evaluates; reusing the consumed value would skip them for the re-resolved commit)", floor=2)
    for w in ("MetaStore", "EncryptedStore"):
        f = ostore.wrapper_fn(prog, w, "get_opts")
        rep.saw(f, len(f.events))
        cgs = f.calls_named(r"anda_object_store::check_get_preconditions$")
        rfs = f.calls_named(r"SidecarStore::<T, M>::refresh_meta$")
        ok = bool(cgs) and bool(rfs)
        why = "anchor: check_get_preconditions / refresh_meta not found"
        for cg in cgs:
            clones = [o[1] for o in f.slice_back_op(cg.args[1], through=lambda ev: False)
                      if o[0] == "call" and re.search(r"clone::Clone>?::clone$", o[1].name or "") and "GetOptions" in ((o[1].finfo or {}).get("self") or "")]
            if not clones:
                ok, why = False, "the &mut options passed to the check is not a clone made for this evaluation (it is the caller's value, consumed by an earlier iteration)"
                continue
            for rf in rfs:
                if not f.must_pass({c.block for c in clones}, [cg.block], start=rf.block):
                    ok, why = False, "after refresh_meta the loop can reach the check again without re-cloning the caller's options"
        rep.ob("R07.6", "preconditions-per-iteration|%s::get_opts" % w, ok, why, cgs[0].where() if cgs else f.file + ":%d" % f.line)

    # ------------------------------------------------------------------ R07.5 a backend failure is not an answer
    rep.rule("R07.5", "conformance of error reporting: no wrapper path turns a backend failure into a normal answer (Err edge reaches Ok only via an arm "
                      "naming a specific object_store::Error variant)", floor=12)
    ostore.error_swallow_rules(rep, "R07.5", prog)
    rep.rule("R07.7", "an error of a sidecar commit point leaves no stale cache entry behind: the Err edge of and_try_compute_with reaches a cache invalidation "
             "(update_meta_with, delete_object)", floor=2)
    ostore.commit_error_forgets_cache_rules(rep, "R07.7", prog)
    # a read answers about an object: even the degenerate request (no ranges) has to resolve the key first, so that a missing key is
    # NotFound on every read path, as with the reference store
    rep.rule("R07.8", "every read entry of the wrappers resolves the object's metadata before it can answer Ok (a missing key is NotFound, also for get_ranges with "
             "no ranges)", floor=2)
    for wrapper in ("MetaStore", "EncryptedStore"):
        f = ostore.wrapper_fn(prog, wrapper, "get_ranges")
        rep.saw(f, len(f.events))
        gm = [e for e in f.calls() if re.search(r"SidecarStore::<T, M>::get_meta$|::verified_metadata$", e.name or "")]
        okret = [b for b in f.live_blocks() for st in f.stmts(b) if st[0] == "A" and st[1]["l"] == 0 and not st[1].get("p") and st[2]["k"] == "agg"
                 and st[2]["a"].get("v") in ("Ok", "Ready")]
        okv = [b for b in f.live_blocks() for st in f.stmts(b) if st[0] == "A" and st[2]["k"] == "agg" and st[2]["a"].get("v") == "Ok"
               and (st[2]["a"].get("def") or "").endswith("result::Result")]
        gb = {b for e in gm for b in (e.block, e.call_block)}
        bad = [b for b in okv if not f.must_pass(gb, [b])]
        rep.ob("R07.8", "read-resolves-the-object-first|%s::get_ranges" % wrapper, bool(gm) and bool(okv) and not bad,
               "get_ranges can answer Ok without looking the object up (the early return for an empty range list): get_ranges(missing, []) is Ok([]) where the "
               "reference store, and every other read of the wrapper, answers NotFound", (f.file + ":%d" % f.term(bad[0]).get("ln", f.line)) if bad else f.file)
    return rep.finish(EXPLAIN)


def _entry_value_used(K):
    """Does the commit closure read the cache entry it is handed (`|_entry|`)?"""
    for uv in K.upvars:
        pass
    # the compute closure parameter is local 2 of the *closure* that creates the coroutine; inside the coroutine it is an upvar named like the pattern
    for d in K.dbg:
        if d["n"] in ("entry", "_entry"):
            p = d.get("p")
            if p and p.get("p"):
                name = [e["n"] for e in p["p"] if isinstance(e, dict) and "n" in e]
                # any statement other than the initial move reading it
                cnt = 0
                for b in K.live_blocks():
                    for st in K.stmts(b):
                        if st[0] == "A":
                            for pl in _places(st[2]):
                                if pl["l"] == p["l"] and any(isinstance(e, dict) and e.get("n") in name for e in (pl.get("p") or [])):
                                    cnt += 1
                return cnt > 1
    return False


def _closure_flows_to(prog, f, K, call_ev):
    """Is K (or the closure that creates K) created in f and passed to call_ev?"""
    ids = {K.id}
    p = prog.fns.get(K.parent)
    while p is not None and p.id != f.id and p.kind == "Closure":
        ids.add(p.id)
        p = prog.fns.get(p.parent)
    for a in call_ev.args:
        for o in f.slice_back_op(a):
            if o[0] == "create" and o[1].cid in ids:
                return True
    return False
