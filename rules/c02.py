"""C02 — every index answers exactly from the stored documents.  (DESIGN §4 C02)

Decides maintenance symmetry and rollback completeness, not index/document equality."""
import re

from lib import core, valueflow
from lib.report import CheckerFault
from . import anda
from .c01 import effect_sites

EXPLAIN = (
    "Static analysis over rustc MIR of anda_db::collection and anda_db::index::btree: R02.1 every function that maintains documents in the "
    "indexes touches all index families enumerated from the Collection type (or is a confirmed single-family function); R02.2 the rollback closure "
    "of add/update/remove contains the inverse of every forward index operation per family (update with swapped operands); R02.3 from the first forward "
    "index mutation every path to an error return passes the rollback closure or the poison function; R02.4 every mutation of the id bitmap is paired with "
    "the matching mutation of the ordered id set; R02.5 insert/remove/query of the typed B-tree wrapper accept the same (index type, value type) pairs and "
    "the equality fold covers exactly the cross-type pairs; R02.6 an index is registered only after its backfill succeeded. "
    "Not decided: equality of index content and documents over histories, BM25/HNSW answers.")

FAM_RX = re.compile(r"^anda_db::index::(btree::BTree|bm25::BM25|hnsw::Hnsw)::(\w+)$")
INNER_BTREE = re.compile(r"^anda_db_btree::btree::BTreeIndex::<.*>::(\w+)$")


def families(prog):
    adt = prog.adt(anda.COLL)
    out = {}
    for fd in adt["variants"][0]["fields"]:
        m = re.match(r"^alloc::vec::Vec<anda_db::index::(\w+)::(\w+)>$", fd["ty"])
        if m:
            out[fd["name"]] = "anda_db::index::%s::%s" % (m.group(1), m.group(2))
    return out


def fam_ops(prog, fns, fams):
    """{family field: set(op)} for wrapper calls in the given fn bodies."""
    ty2field = {v: k for k, v in fams.items()}
    out = {}
    for f in fns:
        for e in f.calls() + [x for x in f.events if x.kind == "ref"]:
            m = FAM_RX.match(e.name)
            if not m:
                continue
            ty = e.name.rsplit("::", 1)[0]
            if ty in ty2field:
                out.setdefault(ty2field[ty], set()).add((m.group(2), e))
    return out


def rollback_rules(rep, prog, C, fams, r22, r23, names=("add_impl", "update_impl", "remove_impl")):
    """Forward/rollback pairing of index operations and rollback-or-poison on every error exit (shared by C02 and C04)."""
    MUT_OPS = {"insert", "remove", "update", "purge_ids", "batch_update"}
    # ------------------------------------------------------------------ R02.2 / R02.3 forward vs rollback
    inv = {"insert": "remove", "remove": "insert", "update": "update", "purge_ids": None}
    pois_ids = C.poison_ids
    for name in names:
        f = prog.fn(anda.COLL + "::" + name)
        clos = [prog.fns[e.cid] for e in f.creates() if e.cid in prog.fns]
        # classify closures: rollback = invoked only on error edges
        err_targets = set()
        for (sb, place, adt, m, els) in f.variant_edges():
            if adt in ("core::result::Result", "core::ops::control_flow::ControlFlow"):
                t = m.get("Err", m.get("Break"))
                if t is not None:
                    err_targets.add(t)
        rollback, forward_cl = [], []
        for c in clos:
            if not fam_ops(prog, [c] + prog.closures_of(c), fams):
                continue
            inv_sites = [e for e in f.calls() if c.id in prog.callee_nodes(e)]
            if inv_sites and all(any(f.dominates(t, e.block) for t in err_targets) for e in inv_sites):
                rollback.append((c, inv_sites))
            else:
                forward_cl.append((c, inv_sites))
        fwd_fns = [c for c, _ in forward_cl] or [f]
        fwd = fam_ops(prog, fwd_fns, fams)
        if not rollback:
            rep.ob(r22, "rollback-closure|%s" % name, False, "no rollback closure (index-mutating closure invoked only on error edges) found", f.file + ":%d" % f.line)
            continue
        rb = fam_ops(prog, [rollback[0][0]] + prog.closures_of(rollback[0][0]), fams)
        # forward operations that run only after the acknowledged document write release what the document no longer holds
        # (the two-phase protocol: claim, write, release); there is nothing to roll back for them
        from .c01 import path_class as _pc2
        wr2 = [e for e in f.calls_named(r"^anda_db::storage::Storage::(put|put_bytes|delete|create)$") if "fn:doc_path" in _pc2(prog, f, e)]
        okw2 = set()
        for w_ in wr2:
            okw2 |= set(f.result_edges(w_)[0])

        def _post_commit(e):
            return e.fn is f and bool(okw2) and (any(f.dominates(t, e.block) for t in okw2) or valueflow.must_pass_ps(f, okw2, [e.block]))
        for fam in sorted(fams):
            fo = {op for op, e_ in fwd.get(fam, ()) if op in MUT_OPS and not _post_commit(e_)}
            ro = {op for op, _ in rb.get(fam, ()) if op in MUT_OPS}
            if "update" in ro:
                ro = ro | {"insert", "remove"}      # update(new -> old) re-asserts the old value and removes the new one
            if not fo and any(op in MUT_OPS for op, _ in fwd.get(fam, ())):
                rep.ob(r22, "inverse|%s|%s" % (name, fam), True, "the family is only released after the acknowledged write: nothing to roll back", f.file + ":%d" % f.line)
                continue
            need = {inv[o] for o in fo if inv.get(o)}
            rep.ob(r22, "inverse|%s|%s" % (name, fam), bool(fo) and need <= ro,
                   "forward ops %s on %s need rollback ops %s, rollback closure has %s" % (sorted(fo), fam, sorted(need), sorted(ro)),
                   "%s:%d" % (rollback[0][0].file, rollback[0][0].line))
        # swapped operands for update
        for fam in fams:
            for (op, e) in rb.get(fam, ()):
                if op == "update":
                    g = e.fn
                    a_old = _first_ref_field(g, e.args[2])
                    a_new = _first_ref_field(g, e.args[3])
                    ok = a_old == "1" and a_new == "0"
                    rep.ob(r22, "swap|%s|%s" % (name, fam), ok,
                           "rollback update must restore (new -> old): its `old` operand borrows tuple field .1 and its `new` operand field .0 (got .%s / .%s)" % (
                               a_old, a_new), e.where())
        # two-phase protocol (claim, write, release): a forward pass that only claims the new B-tree values (insert, no update /
        # remove) leaves the old ones in the index; they are released behind the acknowledged write, with the operands in the
        # opposite order of the rollback's restore (both read the same (old, new) record)
        pre_b = {op for op, e_ in fwd.get("btree_indexes", ()) if op in MUT_OPS and e_.kind == "call" and not _post_commit(e_)}
        rb_b = {op for op, _ in rb.get("btree_indexes", ())}
        # (an add has no old values: its rollback removes; a replacement's rollback restores an (old, new) record with update)
        if forward_cl and "insert" in pre_b and not (pre_b & {"update", "remove", "batch_update"}) and "update" in rb_b:
            own = fam_ops(prog, [f], fams).get("btree_indexes", ())
            rel = [(op, e_) for (op, e_) in own if e_.fn is f and e_.kind == "call" and op in ("update", "remove", "batch_update") and _post_commit(e_)]
            for c in clos:          # ... or in a closure / inlined helper invoked only behind the acknowledged write
                if any(c is x for x, _ in rollback) or any(c is x for x, _ in forward_cl):
                    continue
                sites_ = [e_ for e_ in f.calls() if c.id in prog.callee_nodes(e_)]
                if sites_ and all(_post_commit(e_) for e_ in sites_):
                    rel += [(op, e_) for (op, e_) in fam_ops(prog, [c] + prog.closures_of(c), fams).get("btree_indexes", ()) if op in ("update", "remove", "batch_update")]
            rep.ob(r22, "claimed-values-released-after-write|%s" % name, bool(rel),
                   "%s only claims the new B-tree values before the document write (insert, no update / remove) and never releases the old ones behind the "
                   "acknowledged write: every update leaves the replaced value in the index - a stale hit for readers, and a unique value that stays taken "
                   "although its holder changed" % name, f.file + ":%d" % f.line)
            rb_order = [(_first_ref_field(e_.fn, e_.args[2]), _first_ref_field(e_.fn, e_.args[3])) for (op, e_) in rb.get("btree_indexes", ()) if op == "update" and len(e_.args) >= 4]
            rb_order = [x for x in rb_order if None not in x]
            for (op, e_) in rel:
                if op != "update" or len(e_.args) < 4:
                    continue
                got = (_first_ref_field(e_.fn, e_.args[2]), _first_ref_field(e_.fn, e_.args[3]))
                if None in got or not rb_order:
                    rep.note("release-operands-not-decided|%s" % name, "operand origin of the release at line %d not resolved to record fields" % e_.line)
                    continue
                rep.ob(r22, "release-opposes-restore|%s" % name, all(got == (r_[1], r_[0]) for r_ in rb_order),
                       "the release behind the acknowledged write passes the (old, new) record to BTree::update in the same order as the rollback's restore "
                       "(fields .%s -> .%s, restore .%s -> .%s): one of the two is backwards - the release would take the new value out and keep the old one" % (
                           got[0], got[1], rb_order[0][0], rb_order[0][1]), e_.where())
        # id-keyed families (BM25, HNSW): a removal of the id after an insertion of the same id, in the same pass, deletes the
        # entry that was just (re)inserted - the remove must come first in the forward pass *and* in the rollback closure
        for side, table in (("forward", fwd), ("rollback", rb)):
            for fam in sorted(fams):
                if fam == "btree_indexes":
                    continue
                insl = [e for (op, e) in table.get(fam, ()) if op == "insert"]
                reml = [e for (op, e) in table.get(fam, ()) if op == "remove"]
                if not insl or not reml:
                    continue
                late = []
                for i_ in insl:
                    for r_ in reml:
                        if i_.fn is not r_.fn:
                            continue
                        g = i_.fn
                        heads = {e.block for e in g.calls_named(r"Iterator::next$")}
                        common = {h for h in heads if g.dominates(h, i_.block) and g.dominates(h, r_.block)
                                  and g.can_reach([i_.block], [h]) and g.can_reach([r_.block], [h])}
                        if r_.block in g.reachable_from(g.succ[i_.block], avoid=common):
                            late.append(r_)
                rep.ob(r22, "remove-before-insert|%s|%s|%s" % (name, side, fam), not late,
                       "an id-keyed removal can run after the insertion of the same id in the %s pass (it would delete the entry just inserted)" % side,
                       late[0].where() if late else f.file + ":%d" % f.line)
        # a multi-valued B-tree operation (array / map key set) can be refused after it applied some of its values (the index
        # defers a mid-loop conflict and keeps what it applied): the refused operation itself must be known to the rollback, i.e. its
        # record is made before the call, or on its Err edge before the forward pass returns
        for (op, e) in sorted(fwd.get("btree_indexes", ()), key=lambda x: (x[1].line, x[1].block)):
            if op not in ("insert", "update", "batch_update") or e.kind != "call":
                continue
            g = e.fn
            def _is_record(st_or_ev):
                return True
            recs = [x for x in g.calls_named(r"(HashMap|hash_map::HashMap|hashbrown::map::HashMap)::<K, V, S(, A)?>::insert$|collections::hash::map::HashMap::<K, V, S>::insert$")]
            before = any(g.dominates(x.block, e.block) and x.block != e.block and not g.can_reach([e.block], [x.block]) or
                         (g.dominates(x.block, e.block) and x.block != e.block) for x in recs)
            oks, errs = g.result_edges(e)
            on_err = False
            for t in errs:
                reach = g.reachable_from([t])
                if any(x.block in reach for x in recs):
                    on_err = True
                for b in reach:
                    for st in g.stmts(b):
                        # a write through a captured `&mut` (the closure environment is local 1): `(*(_1.f)) = ..`
                        if st[0] == "A" and st[1].get("l") == 1 and st[1].get("p"):
                            on_err = True
            rep.ob(r22, "refused-op-known-to-rollback|%s|%s" % (name, op), before or on_err,
                   "the B-tree %s of the forward pass is recorded for the rollback only after it succeeded: when it is refused half-way "
                   "(unique conflict on the n-th value of an array / map key set) the values it already applied are never taken back - "
                   "ownerless postings that refuse later writers" % op, e.where())
        # R02.3
        rb_blocks = set()
        for c, sites in rollback:
            rb_blocks |= {e.block for e in sites}
        pb = {e.block for e in f.calls() if e.cid in pois_ids}
        if forward_cl:
            starts = set()
            for c, sites in forward_cl:
                starts |= {e.block for e in sites}
        else:
            starts = {e.block for fam in fwd for (op, e) in fwd[fam] if op in MUT_OPS and e.fn is f}
        err_ret = _err_return_blocks(f)
        bad = []
        for s in sorted(starts):
            r = valueflow.reachable_ps(f, s, avoid=rb_blocks | pb)
            hit = (r & err_ret) - {s}
            if hit:
                bad.append((s, sorted(hit)[:3]))
        rep.ob(r23, "rollback-or-poison|%s" % name, bool(starts) and bool(err_ret) and not bad,
               "an error return is reachable after a forward index mutation without rollback/poison: %s" % bad, f.file + ":%d" % f.line)



def run(rep, tier):
    prog = anda.load()
    C = anda.Coll(prog)
    rep.not_decided = "index content == documents for any history; BM25/HNSW answers; phantom absence after recovery"
    rep.assumptions = ["rustc MIR and callee resolution", "index wrapper mutator names (insert/remove/update/purge_ids) denote their effect"]
    fams = families(prog)
    if len(fams) < 3:
        raise CheckerFault("anchor missing: Collection has %d Vec<index> family fields" % len(fams))
    rep.note("index_families", fams)
    MUT_OPS = {"insert", "remove", "update", "purge_ids", "batch_update"}
    MAINT_OPS = MUT_OPS | {"flush", "has_pending_flush", "bootstrap"}

    # ------------------------------------------------------------------ R02.1 family symmetry
    rep.rule("R02.1", "every document-maintaining function covers all index families of Collection (or is a confirmed single-family function)", floor=10)
    SINGLE = {  # function -> reason
        "backfill_btree_index": "backfills the one index being created", "backfill_bm25_index": "same", "backfill_hnsw_index": "same",
        "reconcile_mutation_intents": "id-keyed HNSW purge of a crashed remove; value-keyed families go through remove_document_from_indexes",
    }
    per_fn = {}
    for f in prog.fns.values():
        if f.crate != "anda_db":
            continue
        o = prog.outer_fn(f)
        if not o.path.startswith(anda.COLL + "::"):
            continue
        ops = fam_ops(prog, [f], fams)
        for fam, s in ops.items():
            for (op, e) in s:
                if op in MAINT_OPS:
                    per_fn.setdefault(o.path.rsplit("::", 1)[1], {}).setdefault(fam, set()).add(op)
    for name, cov in sorted(per_fn.items()):
        f = prog.fn(anda.COLL + "::" + name)
        rep.saw(f, len(f.events))
        missing = sorted(set(fams) - set(cov))
        if name in SINGLE:
            rep.ob("R02.1", "single-family|%s" % name, len(cov) == 1, "confirmed single-family function now touches %s" % sorted(cov), f.file + ":%d" % f.line)
            continue
        rep.ob("R02.1", "families|%s" % name, not missing, "index family %s is not maintained by %s (covers %s)" % (missing, name, sorted(cov)), f.file + ":%d" % f.line)
        # same kind of operation for every family (insert everywhere / remove everywhere)
        kinds = {}
        for fam, ops in cov.items():
            kinds[fam] = {("remove" if op == "purge_ids" else ("insert+remove" if op == "update" else op)) for op in ops}
        flat = {fam: ("insert" in k or "insert+remove" in k, "remove" in k or "insert+remove" in k) for fam, k in kinds.items()
                if k & {"insert", "remove", "insert+remove"}}
        if len(flat) == len(fams) and len(set(flat.values())) != 1:
            # tolerated asymmetry: the odd family lacks only the *restoring* direction, and all its calls in this function come after
            # the acknowledged document write (its values are released post-commit, so there is nothing to roll back for it)
            from .c01 import path_class as _pc
            wr_ = [e for e in f.calls_named(r"^anda_db::storage::Storage::(put|put_bytes|delete|create)$") if "fn:doc_path" in _pc(prog, f, e)]
            okw_ = set()
            for w_ in wr_:
                okw_ |= set(f.result_edges(w_)[0])
            full = max(flat.values(), key=lambda v: (v[0] + v[1]))
            odd = [fam for fam, v in flat.items() if v != full]
            post = True
            for fam in odd:
                for (op, e) in fam_ops(prog, [f], fams).get(fam, ()):
                    if op in MUT_OPS and e.kind == "call" and e.fn is f and not (okw_ and (
                            any(f.dominates(t, e.block) for t in okw_) or valueflow.must_pass_ps(f, okw_, [e.block]))):
                        post = False        # (path-sensitive: the write is skipped only when there is no document, and then nothing is released)
                if any(op in MUT_OPS for c_ in prog.closures_of(f) for (op, e) in fam_ops(prog, [c_], fams).get(fam, ())):
                    post = False
            if post and okw_:
                flat = {fam: full for fam in flat}
        if len(flat) == len(fams):
            rep.ob("R02.1", "same-ops|%s" % name, len(set(flat.values())) == 1,
                   "families are maintained asymmetrically in %s: %s" % (name, {k: sorted(v) for k, v in kinds.items()}), f.file + ":%d" % f.line)
    for req in ("add_impl", "update_impl", "remove_impl", "remove_document_from_indexes", "insert_document_into_indexes", "repair_document",
                "purge_dead_ids_from_indexes", "store_indexes", "has_pending_index_flush", "load_indexes"):
        if req not in per_fn:
            rep.ob("R02.1", "families|%s" % req, False, "expected maintaining function %s touches no index family" % req, anda.COLL)

    # ------------------------------------------------------------------ R02.2 / R02.3 forward vs rollback
    rep.rule("R02.2", "rollback closure holds the inverse of every forward index operation per family; B-tree update restored with swapped operands", floor=9)
    rep.rule("R02.3", "after the first forward index mutation every path to an error return passes the rollback closure or the poison function", floor=3)
    rollback_rules(rep, prog, C, fams, "R02.2", "R02.3")

    # ------------------------------------------------------------------ R02.7 changed index buckets are re-persisted
    rep.rule("R02.7", "bucketed indexes (B-tree, BM25): every change of a bucket's recorded size is accompanied by marking the bucket dirty, so the next "
                      "flush rewrites it and a reopened index answers from the same postings as the live one", floor=14)
    from . import idxcommon as ix
    ixprog = ix.load()
    ix.size_change_marks_dirty(rep, "R02.7", ixprog, "btree")
    ix.size_change_marks_dirty(rep, "R02.7", ixprog, "bm25")

    # ------------------------------------------------------------------ R02.8 a refused index update keeps the old entry
    rep.rule("R02.8", "an index update inserts the new value before removing the old one, so an update refused by the index leaves the stored document's entry in place", floor=2)
    from .c04 import update_order_rules
    update_order_rules(rep, "R02.8", ix.load())

    # ------------------------------------------------------------------ R02.4 id bitmap / ordered id set pairing
    rep.rule("R02.4", "every doc_ids (bitmap) mutation is paired with the matching doc_ids_index (ordered set) mutation in the same function", floor=6)
    for f in prog.fns.values():
        if f.crate != "anda_db" or not prog.outer_fn(f).path.startswith(anda.COLL + "::"):
            continue
        D = [(e, e.name.rsplit("::", 1)[1]) for e in f.calls_named(r"croaring::treemap::.*Treemap>?::(add|remove)$") if "doc_ids" in anda.recv_fields(f, e)]
        I = [(e, e.name.rsplit("::", 1)[1]) for e in f.calls_named(r"BTreeSet::<T, A>::(insert|remove)$") if "doc_ids_index" in anda.recv_fields(f, e)]
        if not D and not I:
            continue
        rep.saw(f, len(D) + len(I))
        pair = {"add": "insert", "insert": "add", "remove": "remove"}
        for (x, kind), others in [(d, I) for d in D] + [(i, D) for i in I]:
            partners = [p for p, k in others if k == pair[kind]]
            ok = False
            for p in partners:
                if f.dominates(p.block, x.block):
                    ok = True
                elif f.dominates(x.block, p.block):
                    # p on every path from x (or from the `true` edge of x's bool result) to a return
                    from .c06_db import _bool_switch
                    ft, tt = _bool_switch(f, x) if f.locals[x.dest.l] == "bool" else (None, None)
                    start = tt if tt is not None else x.block
                    if not (f.reachable_from([start], avoid=[p.block]) & set(f.return_blocks())):
                        ok = True
            which = "bitmap" if (x, kind) in D else "ordered-set"
            rep.ob("R02.4", "paired|%s|%s.%s" % (prog.outer_fn(f).path.rsplit("::", 1)[1], which, kind), ok,
                   "%s %s of an id has no matching mutation of the sibling id structure on the same paths" % (which, kind), x.where())

    # ------------------------------------------------------------------ R02.10 a change of the id bitmap reaches the version watermark
    rep.rule("R02.10", "a change of the id bitmap is followed, on every path to a successful return, by a bump of metadata.stats.version: flush compares "
             "that version with last_saved_version and takes its no-op path when they agree, so an unbumped change never reaches ids.cbor (after the next "
             "reopen the reported id set and the fetchable documents differ)", floor=5)
    n210 = 0
    for f in prog.fns.values():
        if f.crate != "anda_db" or not prog.outer_fn(f).path.startswith(anda.COLL + "::"):
            continue
        D = [e for e in f.calls_named(r"croaring::treemap::.*Treemap>?::(add|remove)$") if "doc_ids" in anda.recv_fields(f, e)]
        if not D:
            continue
        outer = prog.outer_fn(f)
        host = f
        in_closure = not (f is outer or prog.async_body(outer) is f)
        if in_closure:
            # the mutation sits in a plain closure (a filter over the dead ids): judged in the function that runs it, by existence only -
            # whether the closure changed anything is a run-time value
            host = prog.async_body(outer) or outer
        bumps = []
        for e in host.calls_named(r"Collection::update_metadata$"):
            cl = [prog.fns[o[1].cid] for a in e.args[1:] for o in host.slice_back_op(a) if o[0] == "create" and o[1].cid in prog.fns]
            if any(_writes_field(c, "version") for c in cl):
                bumps.append(e)
        name = outer.path.rsplit("::", 1)[1]
        rep.saw(host, len(D) + len(bumps))
        n210 += 1
        if in_closure:
            made = [e.block for e in host.creates() if e.cid == f.id]
            ok = bool(bumps) and bool(made) and any(host.can_reach(made, [b.block]) for b in bumps)
        else:
            okr = _ok_return_blocks(host) or set(host.return_blocks())
            bb = {b for e in bumps for b in (e.block, e.call_block)}
            ok = bool(bumps)
            if ok:
                try:
                    at = valueflow.analyse(host, avoid=bb, marks={e.block for e in D})
                    ok = not any((("mark",), 1) in envf for b in okr for envf in at.get(b, ()))
                except RuntimeError:
                    ok = all(host.must_pass(bb, okr, start=e.block) for e in D)
        rep.ob("R02.10", "bitmap-change-bumps-version|%s" % name, ok,
               "%s changes the id bitmap and can return successfully without bumping metadata.stats.version: when nothing else changed, the flush that follows "
               "(the open path's, or the next explicit one) takes its no-change path, ids.cbor keeps the old id set while the intents / documents it was derived "
               "from are gone - contains(id) and get(id) disagree after the next reopen" % name, D[0].where())
    if n210 < 5:
        raise CheckerFault("anchor missing: only %d functions change the id bitmap (expected add, remove, reconcile, repair, heal)" % n210)

    # ------------------------------------------------------------------ R02.11 index flush watermarks
    rep.rule("R02.11", "the three index crates keep the same flush watermark as the collection (last_saved_version): behind the awaited commit write it is "
             "raised to the version of the snapshot that was serialized, never to a value read after the write returned (a mutation that landed in "
             "between would be counted as saved and the next flush of that index would be a no-op)", floor=3)
    from .c05 import watermark_rules
    watermark_rules(rep, "R02.11", prog, ("anda_db_btree", "anda_db_tfs", "anda_db_hnsw"), 3)

    # ------------------------------------------------------------------ R02.5 typed wrapper agreement
    rep.rule("R02.5", "BTree wrapper: insert/remove/query_with accept the same (index type, value type) pairs; values_equal folds the cross-type pairs; scans cover all index types", floor=8)
    BT = "anda_db::index::btree::BTree"
    bt_variants = [v["name"] for v in prog.adt(BT)["variants"]]

    def accepted(fname, inner_ops):
        f = prog.fn(BT + "::" + fname)
        rep.saw(f, len(f.events))
        pairs = set()
        for e in f.calls():
            m = INNER_BTREE.match(e.name)
            if not m or m.group(1) not in inner_ops:
                continue
            doms = {}
            for (sb, place, adt, mm, els) in f.variant_edges():
                if adt in (BT, "anda_db_schema::field::FieldValue"):
                    for v, tb in mm.items():
                        if f.dominates(tb, e.block) and _single_target(mm, v):
                            doms.setdefault(adt, set()).add(v)
            for b in doms.get(BT, ()):
                for v in doms.get("anda_db_schema::field::FieldValue", ()):
                    pairs.add((b, v))
        return pairs
    p_ins = accepted("insert", {"insert"})
    p_rem = accepted("remove", {"remove"})
    p_qry = accepted("query_with", {"query_with"})
    rep.note("btree_accepted_pairs", sorted(p_ins))
    rep.ob("R02.5", "pairs|insert==remove", p_ins == p_rem and bool(p_ins), "insert accepts %s, remove accepts %s" % (sorted(p_ins - p_rem), sorted(p_rem - p_ins)), BT)
    rep.ob("R02.5", "pairs|insert==query_with", p_ins == p_qry and bool(p_ins), "insert accepts %s, query_with accepts %s" % (sorted(p_ins - p_qry), sorted(p_qry - p_ins)), BT)
    rep.ob("R02.5", "pairs|all-index-types", {b for b, _ in p_ins} == set(bt_variants), "every BTree variant accepts at least one value type", BT)
    # values_equal: for each index type accepting several value types there is a `true` outcome dominated by both
    ve = prog.fn(BT + "::values_equal")
    cross = {}
    for b, v in p_ins:
        cross.setdefault(b, set()).add(v)
    cross = {b: vs for b, vs in cross.items() if len(vs) > 1}
    folded = {}
    true_blocks, false_blocks = set(), set()
    for bl in ve.live_blocks():
        for st in ve.stmts(bl):
            if st[0] == "A" and st[1]["l"] == 0 and st[2]["k"] == "use" and (st[2]["o"].get("k") or {}).get("ty") == "bool":
                (true_blocks if st[2]["o"]["k"].get("int") == "1" else false_blocks).add(bl)
    edges = [(sb, place, adt, v, tb) for (sb, place, adt, mm, els) in ve.variant_edges() if adt in (BT, "anda_db_schema::field::FieldValue")
             for v, tb in mm.items() if _single_target(mm, v)]
    for (s1, p1, a1, v1, t1) in edges:
        if a1 != BT:
            continue
        for (s2, p2, a2, v2, t2) in edges:
            if a2 == BT or not ve.dominates(t1, s2):
                continue
            for (s3, p3, a3, v3, t3) in edges:
                if a3 == BT or not ve.dominates(t2, s3) or repr(p3) == repr(p2):
                    continue
                if ve.reachable_from([t3], avoid=false_blocks) & true_blocks:
                    folded.setdefault(v1, set()).update({v2, v3})
    folded = {b: vs for b, vs in folded.items() if len(vs) > 1}
    rep.ob("R02.5", "values_equal-folds-cross-pairs", folded == cross and bool(cross),
           "cross-type pairs accepted by insert: %s; folded by values_equal: %s" % ({k: sorted(v) for k, v in cross.items()}, {k: sorted(v) for k, v in folded.items()}),
           ve.file + ":%d" % ve.line)
    for fname, ops in (("try_range_query_ids", {"range_query_with", "range_query_rev_with"}), ("range_query_with", {"range_query_with"}), ("keys", {"keys"}),
                       ("insert_array", {"insert_array"}), ("remove_array", {"remove_array"}), ("batch_update", {"batch_update"})):
        f = prog.fn(BT + "::" + fname)
        rep.saw(f, len(f.events))
        cov = set()
        fl = [f] + prog.closures_of(f)
        for (sb, place, adt, mm, els) in f.variant_edges():
            if adt != BT:
                continue
            for v, tb in mm.items():
                region = {b for b in f.live_blocks() if f.dominates(tb, b)}
                if any(INNER_BTREE.match(e.name) and INNER_BTREE.match(e.name).group(1) in ops and e.block in region for e in f.calls()):
                    cov.add(v)
        rep.ob("R02.5", "all-index-types|%s" % fname, cov == set(bt_variants), "%s handles index types %s of %s" % (fname, sorted(cov), sorted(bt_variants)), f.file + ":%d" % f.line)

    # ------------------------------------------------------------------ R02.6 backfill before registration
    rep.rule("R02.6", "create_*_index: the index is pushed into its family and registered in metadata only on the Ok edge of its backfill", floor=3)
    for fam, ty in sorted(fams.items()):
        short = fam.replace("_indexes", "")
        f = prog.fn(anda.COLL + "::create_%s_index" % short)
        rep.saw(f, len(f.events))
        bf = f.calls_named(r"Collection::backfill_%s_index$" % short)
        regs = [e for e in f.calls_named(r"Vec::<T, A>::(push|insert)$") if fam in anda.recv_fields(f, e) and "metadata" not in anda.recv_fields(f, e)]
        metas = [e for e in f.calls_named(r"BTreeMap::<K, V, A>::insert$") if fam in anda.recv_fields(f, e)]
        oks, errs = set(), set()
        for e in bf:
            o, r = f.result_edges(e)
            oks |= set(o)
            errs |= set(r)
        targets = [e.block for e in regs + metas]
        ok = bool(bf) and bool(regs) and bool(metas) and bool(oks) and f.must_pass(oks, targets) and not any(f.reachable_from([t]) & set(targets) for t in errs)
        rep.ob("R02.6", "backfill-before-registration|%s" % fam, ok,
               "registration (%d family pushes, %d metadata inserts) must lie on the Ok edge of backfill only" % (len(regs), len(metas)), f.file + ":%d" % f.line)
    # ------------------------------------------------------------------ R02.9 settings and registries that the indexes depend on
    rep.rule("R02.9", "what an index was built with follows the collection: set_tokenizer reaches the loaded BM25 indexes (the open callback runs after "
             "load_indexes); a writer of the collection metadata outside the checkpoint does not publish an index whose objects were not persisted", floor=2)
    st = prog.fn(anda.COLL + "::set_tokenizer")
    rep.saw(st, len(st.events))
    fam_field = [k for k, v in fams.items() if v.endswith("BM25")]
    touches = any(fam_field and fam_field[0] in anda.recv_fields(st, e) for e in st.calls()) or any(
        isinstance(el, dict) and el.get("n") in fam_field for b in st.live_blocks() for stt in st.stmts(b) if stt[0] == "A"
        for pl in ([stt[2].get("p")] if stt[2].get("k") == "ref" else []) if pl for el in (pl.get("p") or []))
    pushes_down = any(re.search(r"index::bm25::BM25::set_tokenizer$|bm25::BM25Index::<T>::set_tokenizer$", e.name or "")
                      for g_ in [st] + list(prog.closures_of(st)) for e in g_.calls())
    # (the setters of the wrapper and of the index are small new functions: once inlined, what is left is a mutable walk over the family)
    mut_walk = any(re.search(r"IterMut<|iter_mut$|&'a mut alloc::vec::Vec", e.name or "") for e in st.calls())
    rep.ob("R02.9", "tokenizer-reaches-loaded-indexes|set_tokenizer", touches and (pushes_down or mut_walk),
           "Collection::set_tokenizer only assigns the collection's field; the BM25 indexes load_indexes built before the open callback keep the default tokenizer: "
           "after a clean close and reopen with set_tokenizer(jieba) a document whose text Collection::tokenize says contains the term is not returned by the term "
           "query (updates and removes after a reopen re-tokenize with the wrong tokenizer too)", st.file + ":%d" % st.line)
    um = prog.fn(anda.COLL + "::store_metadata_unclaimed")
    rep.saw(um, len(um.events))
    si = {f_.id for f_ in prog.fns.values() if f_.path == anda.COLL + "::store_indexes"}
    wr_meta = [e for e in um.calls_named(r"^anda_db::storage::Storage::(put|put_bytes)$")]
    flushed_first = bool(wr_meta) and any(set(prog.callee_nodes(e)) & si and all(um.dominates(e.block, w.block) for w in wr_meta) for e in um.calls())
    # or: the registry it writes is not the live one (it is derived from the last persisted index set)
    live_registry = any(e.name.endswith("Collection::metadata") for e in um.calls())
    # or: the three index maps of the snapshot it writes are cut down (retain) against a registry of persisted indexes the collection keeps
    cut = [e for e in um.calls_named(r"BTreeMap::<K, V, A>::retain$|BTreeMap::<K, V>::retain$")]
    cut_fields = set()
    for e in cut:
        cut_fields |= um.slice_fields(e.args[0])
    # by shape: the predicate handed to retain captures something read from a field of the collection other than the live metadata
    keeps_registry = False
    registry_fields = set()
    for e in cut:
        for a in e.args[1:]:
            for o in um.slice_back_op(a):
                if o[0] == "create":
                    for op_ in getattr(o[1], "ops", []) or []:
                        fl = um.slice_fields(op_, through=lambda ev: True)
                        if "self" in fl and (fl - {"self", "metadata", "0", "1", "2"}):
                            keeps_registry = True
                            registry_fields |= fl - {"self", "metadata", "0", "1", "2"}
    filtered = {"btree_indexes", "bm25_indexes", "hnsw_indexes"} <= cut_fields and keeps_registry
    rep.ob("R02.9", "unclaimed-metadata-names-only-persisted-indexes|store_metadata_unclaimed", flushed_first or not live_registry or filtered,
           "store_metadata_unclaimed (save_extension, remove_extension, cleanup_removed_index) PUTs the live metadata registry without the `indexes before metadata` "
           "order of flush_inner: an index created in this handle whose postings exist only in memory becomes durably registered - after a crash it bootstraps "
           "empty, create_*_index_nx swallows AlreadyExists and the repair scan only covers ids above the checkpoint, so `score == 7` answers [] for documents 1-3 for good",
           (wr_meta[0].where() if wr_meta else um.file))

    if filtered and not flushed_first:
        # the registry of persisted indexes is only as good as its last refresh: the claimed writer (store_metadata, behind the
        # checkpoint's store_indexes) assigns it behind its acknowledged metadata PUT, on the way to every successful return
        smf = prog.fn(anda.COLL + "::store_metadata")
        smb = prog.async_body(smf) or smf
        rep.saw(smb, len(smb.events))
        puts_ = [e for e in smb.calls_named(r"^anda_db::storage::Storage::(put|put_bytes)$")]
        refresh = [e for e in smb.calls_named(r"lock_api::rwlock::RwLock::<R, T>::write$|Mutex::<R, T>::lock$|Mutex::<T>::lock$")
                   if registry_fields & anda.recv_fields(smb, e)]
        okr_ = [b for b in _ok_return_blocks(smb) if any(smb.dominates(w.block, b) for w in puts_)]
        rb_ = {e.block for e in refresh}
        rep.ob("R02.9", "persisted-index-registry-refreshed|store_metadata",
               bool(puts_) and bool(refresh) and bool(okr_) and all(any(smb.dominates(w.block, e.block) for w in puts_) for e in refresh)
               and all(smb.must_pass(rb_, [b], start=w.block) for w in puts_ for b in okr_),
               "store_metadata_unclaimed cuts the snapshot it writes down to the registry of persisted indexes (%s), and the checkpoint's store_metadata never "
               "refreshes that registry behind its metadata PUT: an index created and checkpointed in this session is dropped from meta.cbor by the next "
               "save_extension / index removal, and after a reopen the collection no longer loads it (its documents stay unindexed)" % ", ".join(sorted(registry_fields)),
               (puts_[0].where() if puts_ else smb.file))

    return rep.finish(EXPLAIN)


def _single_target(m, v):
    """The edge for variant v is not shared with another variant (an `otherwise` edge covering several variants proves nothing)."""
    t = m[v]
    return sum(1 for x in m.values() if x == t) == 1


def _err_return_blocks(f):
    """Blocks that produce an error return value: `_0 = Err(..)` or `_0 = from_residual(..)`."""
    out = set()
    for b in f.live_blocks():
        for st in f.stmts(b):
            if st[0] == "A" and st[1]["l"] == 0 and not st[1].get("p") and st[2]["k"] == "agg" and st[2]["a"].get("def") == "core::result::Result" and st[2]["a"].get("v") == "Err":
                out.add(b)
        t = f.term(b)
        if t["k"] == "call" and t["f"].get("path") == core.FROM_RESIDUAL and t["d"]["l"] == 0:
            out.add(b)
    return out


def _ok_return_blocks(f):
    """Blocks that produce a successful return value: `_0 = Ok(..)`."""
    out = set()
    for b in f.live_blocks():
        for st in f.stmts(b):
            if st[0] == "A" and st[1]["l"] == 0 and not st[1].get("p") and st[2]["k"] == "agg" and st[2]["a"].get("def") == "core::result::Result" and st[2]["a"].get("v") == "Ok":
                out.add(b)
    return out


def _writes_field(c, field):
    for b in c.live_blocks():
        for st in c.stmts(b):
            if st[0] == "A" and any(isinstance(x, dict) and x.get("n") == field for x in (st[1].get("p") or [])):
                return True
    return False


def _first_ref_field(g, o, depth=0):
    """The last field name of the place first borrowed on the way to operand `o`
    (`&v.1` -> '1'), following copies/moves and Deref calls."""
    p = core.op_place(o)
    if p is None or depth > 6:
        return None
    if p.fields():
        return p.fields()[-1]
    for (b, i, kind, data) in g.defs.get(p.l, []):
        if kind == "assign":
            rv = data[2]
            if rv["k"] in ("ref", "cfd"):
                pl = core.Place(rv["p"])
                if pl.fields():
                    return pl.fields()[-1]
                return _first_ref_field(g, {"c": rv["p"]}, depth + 1)
            if rv["k"] == "use":
                return _first_ref_field(g, rv["o"], depth + 1)
        elif kind == "call":
            ev = g._ev_at.get(b)
            if ev is not None and ev.callee in core.TRANSPARENT and ev.args:
                return _first_ref_field(g, ev.args[0], depth + 1)
    return None
