//! mirfacts — rustc_private driver that dumps the resolved program (MIR as built,
//! before borrowck/drop elaboration/coroutine lowering) of every workspace crate
//! as one JSON fact file per crate.  Used as RUSTC_WORKSPACE_WRAPPER.
//!
//! Bodies are captured inside an overridden `mir_built` provider (later queries
//! steal the body).  Callees are resolved with `Instance::try_resolve` under
//! `TypingEnv::post_analysis`.
#![feature(rustc_private)]
#![allow(clippy::all)]

extern crate rustc_abi;
extern crate rustc_data_structures;
extern crate rustc_driver;
extern crate rustc_hir;
extern crate rustc_interface;
extern crate rustc_middle;
extern crate rustc_session;
extern crate rustc_span;

use rustc_data_structures::steal::Steal;
use rustc_driver::Compilation;
use rustc_hir::def::DefKind;
use rustc_interface::interface::Compiler;
use rustc_middle::mir::{
    self, AggregateKind, BorrowKind, Body, Const, ConstValue, Operand, Place, PlaceElem, Rvalue,
    StatementKind, TerminatorKind, UnwindAction, VarDebugInfoContents,
};
use rustc_middle::ty::{self, Ty, TyCtxt};
use rustc_span::def_id::{DefId, LocalDefId, LOCAL_CRATE};
use rustc_span::Span;
use std::fmt::Write as _;
use std::sync::Mutex;

static FNS: Mutex<Vec<String>> = Mutex::new(Vec::new());
thread_local! {
    // bodies cloned at `mir_built` time (lifetime erased; only used while the same tcx is alive,
    // in `after_analysis` on the same thread)
    static BODIES: std::cell::RefCell<Vec<(LocalDefId, Body<'static>)>> = std::cell::RefCell::new(Vec::new());
}
static mut ORIG: Option<for<'tcx> fn(TyCtxt<'tcx>, LocalDefId) -> &'tcx Steal<Body<'tcx>>> = None;

fn wanted(tcx: TyCtxt<'_>) -> bool {
    let krate = tcx.crate_name(LOCAL_CRATE).to_string();
    match std::env::var("MIRFACTS_CRATES") {
        Ok(want) => want.split(',').any(|w| w == krate),
        Err(_) => false,
    }
}

// ---------------------------------------------------------------- JSON helpers
fn esc(s: &str) -> String {
    let mut o = String::with_capacity(s.len() + 2);
    o.push('"');
    for ch in s.chars() {
        match ch {
            '"' => o.push_str("\\\""),
            '\\' => o.push_str("\\\\"),
            '\n' => o.push_str("\\n"),
            '\r' => o.push_str("\\r"),
            '\t' => o.push_str("\\t"),
            c if (c as u32) < 0x20 => {
                let _ = write!(o, "\\u{:04x}", c as u32);
            }
            c => o.push(c),
        }
    }
    o.push('"');
    o
}

fn did_hash(tcx: TyCtxt<'_>, d: DefId) -> String {
    format!("{:016x}", tcx.def_path_hash(d).0.to_smaller_hash().as_u64())
}

fn dpath(tcx: TyCtxt<'_>, d: DefId) -> String {
    tcx.def_path_str(d)
}

fn ty_str(t: Ty<'_>) -> String {
    format!("{}", t)
}

fn span_line(tcx: TyCtxt<'_>, sp: Span) -> (String, usize) {
    if sp.is_dummy() {
        return (String::new(), 0);
    }
    let sm = tcx.sess.source_map();
    // take the outermost call site of a macro expansion so lines point at user code
    let sp = sp.source_callsite();
    let loc = sm.lookup_char_pos(sp.lo());
    let name = match &loc.file.name {
        rustc_span::FileName::Real(r) => match r.local_path() {
            Some(p) => p.to_string_lossy().to_string(),
            None => format!("{:?}", r),
        },
        other => format!("{:?}", other),
    };
    (name, loc.line)
}

// ---------------------------------------------------------------- places
fn place_json<'tcx>(tcx: TyCtxt<'tcx>, body: &Body<'tcx>, p: &Place<'tcx>) -> String {
    let mut s = format!("{{\"l\":{}", p.local.as_usize());
    if !p.projection.is_empty() {
        s.push_str(",\"p\":[");
        let mut pty = mir::PlaceTy::from_ty(body.local_decls[p.local].ty);
        let mut first = true;
        for elem in p.projection.iter() {
            if !first {
                s.push(',');
            }
            first = false;
            match elem {
                PlaceElem::Deref => s.push_str("\"*\""),
                PlaceElem::Field(f, _) => {
                    let name = field_name(tcx, pty, f.as_usize());
                    let _ = write!(s, "{{\"f\":{},\"n\":{}}}", f.as_usize(), esc(&name));
                }
                PlaceElem::Downcast(sym, vi) => {
                    let n = match sym {
                        Some(x) => x.to_string(),
                        None => format!("#{}", vi.as_usize()),
                    };
                    let _ = write!(s, "{{\"d\":{}}}", esc(&n));
                }
                PlaceElem::Index(l) => {
                    let _ = write!(s, "{{\"i\":{}}}", l.as_usize());
                }
                PlaceElem::ConstantIndex { offset, from_end, .. } => {
                    let _ = write!(s, "{{\"ci\":{},\"fe\":{}}}", offset, from_end);
                }
                PlaceElem::Subslice { .. } => s.push_str("\"[..]\""),
                _ => s.push_str("\"?\""),
            }
            pty = pty.projection_ty(tcx, elem);
        }
        s.push(']');
    }
    s.push('}');
    s
}

fn field_name<'tcx>(tcx: TyCtxt<'tcx>, pty: mir::PlaceTy<'tcx>, f: usize) -> String {
    match pty.ty.kind() {
        ty::Adt(adt, _) => {
            let vi = pty.variant_index.unwrap_or(rustc_abi::FIRST_VARIANT);
            if adt.is_enum() || adt.is_struct() || adt.is_union() {
                let v = adt.variant(vi);
                if let Some(fd) = v.fields.iter().nth(f) {
                    return fd.name.to_string();
                }
            }
            format!("{}", f)
        }
        ty::Closure(def, _) | ty::Coroutine(def, _) | ty::CoroutineClosure(def, _) => {
            if let Some(l) = def.as_local() {
                let caps = tcx.closure_captures(l);
                if let Some(c) = caps.get(f) {
                    return c.var_ident.name.to_string();
                }
            }
            format!("{}", f)
        }
        _ => format!("{}", f),
    }
}

// ---------------------------------------------------------------- constants
fn fn_info<'tcx>(
    tcx: TyCtxt<'tcx>,
    env: ty::TypingEnv<'tcx>,
    did: DefId,
    args: ty::GenericArgsRef<'tcx>,
) -> String {
    let mut s = format!("{{\"id\":{},\"path\":{}", esc(&did_hash(tcx, did)), esc(&dpath(tcx, did)));
    if let Some(tr) = tcx.trait_of_assoc(did) {
        let _ = write!(s, ",\"trait\":{}", esc(&dpath(tcx, tr)));
        if let Some(st) = args.types().next() {
            let _ = write!(s, ",\"self\":{}", esc(&ty_str(st)));
        }
    } else if let Some(im) = tcx.impl_of_assoc(did) {
        let st = tcx.type_of(im).instantiate_identity().skip_norm_wip();
        let _ = write!(s, ",\"self\":{}", esc(&ty_str(st)));
    }
    if !args.is_empty() {
        let _ = write!(s, ",\"substs\":{}", esc(&format!("{:?}", args)));
    }
    // resolve
    let has_infer = args.iter().any(|a| format!("{:?}", a).contains("?"));
    if !has_infer {
        if let Ok(Some(inst)) = ty::Instance::try_resolve(tcx, env, did, args) {
            let rd = inst.def_id();
            let virt = matches!(inst.def, ty::InstanceKind::Virtual(..));
            if rd != did || virt {
                let _ = write!(s, ",\"rid\":{},\"rpath\":{}", esc(&did_hash(tcx, rd)), esc(&dpath(tcx, rd)));
            }
            if virt {
                s.push_str(",\"virtual\":true");
            }
            s.push_str(",\"res\":true");
        }
    }
    s.push('}');
    s
}

fn const_json<'tcx>(
    tcx: TyCtxt<'tcx>,
    env: ty::TypingEnv<'tcx>,
    c: &mir::ConstOperand<'tcx>,
) -> String {
    let t = c.const_.ty();
    let mut s = format!("{{\"ty\":{}", esc(&ty_str(t)));
    match t.kind() {
        ty::FnDef(did, args) => {
            let _ = write!(s, ",\"fn\":{}", fn_info(tcx, env, *did, args));
            s.push('}');
            return s;
        }
        _ => {}
    }
    let mut val: Option<ConstValue> = None;
    match c.const_ {
        Const::Val(v, _) => val = Some(v),
        Const::Unevaluated(uv, _) => {
            let _ = write!(s, ",\"def\":{},\"defid\":{}", esc(&dpath(tcx, uv.def)), esc(&did_hash(tcx, uv.def)));
            if let Some(p) = uv.promoted {
                let _ = write!(s, ",\"promoted\":{}", p.as_usize());
            } else if uv.args.is_empty() {
                let k = tcx.def_kind(uv.def);
                if matches!(k, DefKind::Const { .. } | DefKind::AssocConst { .. }) {
                    if let Ok(v) = tcx.const_eval_poly(uv.def) {
                        val = Some(v);
                    }
                }
            }
        }
        Const::Ty(_, ct) => {
            let _ = write!(s, ",\"tyconst\":{}", esc(&format!("{:?}", ct)));
        }
    }
    if let Some(v) = val {
        match v {
            ConstValue::Scalar(mir::interpret::Scalar::Int(i)) => {
                let bits = i.to_bits_unchecked();
                let _ = write!(s, ",\"int\":{}", esc(&format!("{}", bits)));
            }
            ConstValue::Slice { .. } => {
                if let Some(bytes) = v.try_get_slice_bytes_for_diagnostics(tcx) {
                    if let Ok(st) = std::str::from_utf8(bytes) {
                        let _ = write!(s, ",\"str\":{}", esc(st));
                    }
                }
            }
            ConstValue::ZeroSized => {}
            _ => {}
        }
    }
    s.push('}');
    s
}

fn op_json<'tcx>(
    tcx: TyCtxt<'tcx>,
    env: ty::TypingEnv<'tcx>,
    body: &Body<'tcx>,
    o: &Operand<'tcx>,
) -> String {
    match o {
        Operand::Copy(p) => format!("{{\"c\":{}}}", place_json(tcx, body, p)),
        Operand::Move(p) => format!("{{\"m\":{}}}", place_json(tcx, body, p)),
        Operand::Constant(c) => format!("{{\"k\":{}}}", const_json(tcx, env, c)),
        _ => "{\"rt\":true}".to_string(),
    }
}

fn adt_discrs<'tcx>(tcx: TyCtxt<'tcx>, t: Ty<'tcx>) -> Option<String> {
    if let ty::Adt(adt, _) = t.kind() {
        if adt.is_enum() {
            let mut s = format!("{{\"adt\":{},\"vs\":{{", esc(&dpath(tcx, adt.did())));
            let mut first = true;
            for (vi, d) in adt.discriminants(tcx) {
                if !first {
                    s.push(',');
                }
                first = false;
                let _ = write!(s, "\"{}\":{}", d.val, esc(&adt.variant(vi).name.to_string()));
            }
            s.push_str("}}");
            return Some(s);
        }
    }
    None
}

fn rvalue_json<'tcx>(
    tcx: TyCtxt<'tcx>,
    env: ty::TypingEnv<'tcx>,
    body: &Body<'tcx>,
    rv: &Rvalue<'tcx>,
) -> String {
    match rv {
        Rvalue::Use(o, _) => format!("{{\"k\":\"use\",\"o\":{}}}", op_json(tcx, env, body, o)),
        Rvalue::Ref(_, bk, p) => {
            let m = match bk {
                BorrowKind::Shared => "shared",
                BorrowKind::Fake(_) => "fake",
                BorrowKind::Mut { .. } => "mut",
            };
            format!("{{\"k\":\"ref\",\"m\":\"{}\",\"p\":{}}}", m, place_json(tcx, body, p))
        }
        Rvalue::RawPtr(_, p) => format!("{{\"k\":\"rawptr\",\"p\":{}}}", place_json(tcx, body, p)),
        Rvalue::CopyForDeref(p) => format!("{{\"k\":\"cfd\",\"p\":{}}}", place_json(tcx, body, p)),
        Rvalue::Discriminant(p) => {
            let t = p.ty(&body.local_decls, tcx).ty;
            let mut s = format!("{{\"k\":\"discr\",\"p\":{}", place_json(tcx, body, p));
            if let Some(d) = adt_discrs(tcx, t) {
                let _ = write!(s, ",\"e\":{}", d);
            }
            s.push('}');
            s
        }
        Rvalue::BinaryOp(op, ab) => format!(
            "{{\"k\":\"bin\",\"op\":\"{:?}\",\"a\":{},\"b\":{}}}",
            op,
            op_json(tcx, env, body, &ab.0),
            op_json(tcx, env, body, &ab.1)
        ),
        Rvalue::UnaryOp(op, a) => {
            format!("{{\"k\":\"un\",\"op\":\"{:?}\",\"o\":{}}}", op, op_json(tcx, env, body, a))
        }
        Rvalue::Cast(ck, o, t) => format!(
            "{{\"k\":\"cast\",\"ck\":{},\"o\":{},\"ty\":{}}}",
            esc(&format!("{:?}", ck)),
            op_json(tcx, env, body, o),
            esc(&ty_str(*t))
        ),
        Rvalue::Repeat(o, _) => format!("{{\"k\":\"repeat\",\"o\":{}}}", op_json(tcx, env, body, o)),
        Rvalue::Aggregate(kind, ops) => {
            let mut s = String::from("{\"k\":\"agg\",\"a\":");
            match &**kind {
                AggregateKind::Array(_) => s.push_str("{\"t\":\"array\"}"),
                AggregateKind::Tuple => s.push_str("{\"t\":\"tuple\"}"),
                AggregateKind::Adt(did, vi, _, _, active) => {
                    let adt = tcx.adt_def(*did);
                    let v = adt.variant(*vi);
                    let _ = write!(
                        s,
                        "{{\"t\":\"adt\",\"def\":{},\"v\":{},\"fields\":[",
                        esc(&dpath(tcx, *did)),
                        esc(&v.name.to_string())
                    );
                    let mut first = true;
                    if let Some(a) = active {
                        if let Some(fd) = v.fields.iter().nth(a.as_usize()) {
                            s.push_str(&esc(&fd.name.to_string()));
                        }
                    } else {
                        for fd in v.fields.iter() {
                            if !first {
                                s.push(',');
                            }
                            first = false;
                            s.push_str(&esc(&fd.name.to_string()));
                        }
                    }
                    s.push_str("]}");
                }
                AggregateKind::Closure(did, _)
                | AggregateKind::Coroutine(did, _)
                | AggregateKind::CoroutineClosure(did, _) => {
                    let t = match &**kind {
                        AggregateKind::Closure(..) => "closure",
                        AggregateKind::Coroutine(..) => "coroutine",
                        _ => "coroutine_closure",
                    };
                    let _ = write!(
                        s,
                        "{{\"t\":\"{}\",\"id\":{},\"path\":{}}}",
                        t,
                        esc(&did_hash(tcx, *did)),
                        esc(&dpath(tcx, *did))
                    );
                }
                AggregateKind::RawPtr(..) => s.push_str("{\"t\":\"rawptr\"}"),
            }
            s.push_str(",\"ops\":[");
            let mut first = true;
            for o in ops.iter() {
                if !first {
                    s.push(',');
                }
                first = false;
                s.push_str(&op_json(tcx, env, body, o));
            }
            s.push_str("]}");
            s
        }
        Rvalue::ThreadLocalRef(d) => format!("{{\"k\":\"tls\",\"def\":{}}}", esc(&dpath(tcx, *d))),
        other => format!("{{\"k\":\"other\",\"d\":{}}}", esc(&format!("{:?}", other))),
    }
}

fn unwind_bb(u: &UnwindAction) -> String {
    match u {
        UnwindAction::Cleanup(bb) => format!("{}", bb.as_usize()),
        _ => "null".to_string(),
    }
}

fn process<'tcx>(tcx: TyCtxt<'tcx>, def: LocalDefId, body: &Body<'tcx>) -> Option<String> {
    let kind = tcx.def_kind(def);
    if !matches!(kind, DefKind::Fn | DefKind::AssocFn | DefKind::Closure) {
        return None;
    }
    let did = def.to_def_id();
    let env = ty::TypingEnv::post_analysis(tcx, did);
    let (file, line) = span_line(tcx, body.span);
    let mut s = String::with_capacity(4096);
    let _ = write!(
        s,
        "{{\"id\":{},\"path\":{},\"kind\":\"{:?}\",\"file\":{},\"line\":{},\"argc\":{}",
        esc(&did_hash(tcx, did)),
        esc(&dpath(tcx, did)),
        kind,
        esc(&file),
        line,
        body.arg_count
    );
    if let Some(ck) = body.coroutine_kind() {
        let _ = write!(s, ",\"coroutine\":{}", esc(&format!("{:?}", ck)));
    }
    if matches!(kind, DefKind::Closure) {
        let parent = tcx.local_parent(def).to_def_id();
        let _ = write!(s, ",\"parent\":{}", esc(&did_hash(tcx, parent)));
        let caps = tcx.closure_captures(def);
        s.push_str(",\"upvars\":[");
        for (i, c) in caps.iter().enumerate() {
            if i > 0 {
                s.push(',');
            }
            let byref = matches!(c.info.capture_kind, ty::UpvarCapture::ByRef(_));
            let _ = write!(
                s,
                "{{\"n\":{},\"ref\":{},\"place\":{}}}",
                esc(&c.var_ident.name.to_string()),
                byref,
                esc(&format!("{:?}", c.place.projections.len()))
            );
        }
        s.push(']');
    } else {
        let vis = tcx.visibility(did);
        let v = match vis {
            ty::Visibility::Public => "pub",
            ty::Visibility::Restricted(m) => {
                if m.is_top_level_module() { "crate" } else { "private" }
            }
        };
        let _ = write!(s, ",\"vis\":\"{}\"", v);
        if let Some(im) = tcx.impl_of_assoc(did) {
            let st = tcx.type_of(im).instantiate_identity().skip_norm_wip();
            let _ = write!(s, ",\"impl_self\":{}", esc(&ty_str(st)));
            if let ty::Adt(a, _) = st.kind() {
                let _ = write!(s, ",\"impl_adt\":{}", esc(&dpath(tcx, a.did())));
            }
            if let Some(tr) = tcx.impl_opt_trait_ref(im) {
                let tr = tr.instantiate_identity().skip_norm_wip();
                let _ = write!(s, ",\"impl_trait\":{}", esc(&dpath(tcx, tr.def_id)));
                // which trait method does this implement
                if let Some(ti) = tcx.opt_associated_item(did).and_then(|a| a.trait_item_def_id()) {
                    let _ = write!(s, ",\"trait_item\":{}", esc(&dpath(tcx, ti)));
                }
            }
        } else if let Some(tr) = tcx.trait_of_assoc(did) {
            let _ = write!(s, ",\"in_trait\":{}", esc(&dpath(tcx, tr)));
        }
    }
    // locals
    s.push_str(",\"locals\":[");
    for (i, ld) in body.local_decls.iter().enumerate() {
        if i > 0 {
            s.push(',');
        }
        s.push_str(&esc(&ty_str(ld.ty)));
    }
    s.push(']');
    // debug info
    s.push_str(",\"dbg\":[");
    let mut first = true;
    for vd in body.var_debug_info.iter() {
        if !first {
            s.push(',');
        }
        first = false;
        let _ = write!(s, "{{\"n\":{}", esc(&vd.name.to_string()));
        match &vd.value {
            VarDebugInfoContents::Place(p) => {
                let _ = write!(s, ",\"p\":{}", place_json(tcx, body, p));
            }
            VarDebugInfoContents::Const(c) => {
                let _ = write!(s, ",\"k\":{}", const_json(tcx, env, c));
            }
        }
        if let Some(ai) = vd.argument_index {
            let _ = write!(s, ",\"arg\":{}", ai);
        }
        s.push('}');
    }
    s.push(']');
    // blocks
    s.push_str(",\"blocks\":[");
    for (bbi, data) in body.basic_blocks.iter_enumerated() {
        if bbi.as_usize() > 0 {
            s.push(',');
        }
        s.push_str("{\"s\":[");
        let mut first = true;
        for st in &data.statements {
            let js = match &st.kind {
                StatementKind::Assign(b) => {
                    let (_, ln) = span_line(tcx, st.source_info.span);
                    Some(format!(
                        "[\"A\",{},{},{}]",
                        place_json(tcx, body, &b.0),
                        rvalue_json(tcx, env, body, &b.1),
                        ln
                    ))
                }
                StatementKind::SetDiscriminant { place, variant_index } => Some(format!(
                    "[\"SD\",{},{}]",
                    place_json(tcx, body, place),
                    variant_index.as_usize()
                )),
                StatementKind::StorageDead(l) => Some(format!("[\"DEAD\",{}]", l.as_usize())),
                _ => None,
            };
            if let Some(js) = js {
                if !first {
                    s.push(',');
                }
                first = false;
                s.push_str(&js);
            }
        }
        s.push_str("],\"t\":");
        let term = data.terminator();
        let (_, tln) = span_line(tcx, term.source_info.span);
        let exp = term.source_info.span.from_expansion();
        match &term.kind {
            TerminatorKind::Goto { target } => {
                let _ = write!(s, "{{\"k\":\"goto\",\"t\":{}}}", target.as_usize());
            }
            TerminatorKind::SwitchInt { discr, targets } => {
                let _ = write!(s, "{{\"k\":\"switch\",\"o\":{},\"v\":[", op_json(tcx, env, body, discr));
                let mut first = true;
                for (v, bb) in targets.iter() {
                    if !first {
                        s.push(',');
                    }
                    first = false;
                    let _ = write!(s, "[{},{}]", esc(&format!("{}", v)), bb.as_usize());
                }
                let _ = write!(s, "],\"else\":{},\"ln\":{}}}", targets.otherwise().as_usize(), tln);
            }
            TerminatorKind::Return => s.push_str("{\"k\":\"ret\"}"),
            TerminatorKind::Unreachable => s.push_str("{\"k\":\"unreachable\"}"),
            TerminatorKind::UnwindResume => s.push_str("{\"k\":\"resume\"}"),
            TerminatorKind::UnwindTerminate(_) => s.push_str("{\"k\":\"terminate\"}"),
            TerminatorKind::CoroutineDrop => s.push_str("{\"k\":\"codrop\"}"),
            TerminatorKind::Drop { place, target, unwind, .. } => {
                let t = place.ty(&body.local_decls, tcx).ty;
                let _ = write!(
                    s,
                    "{{\"k\":\"drop\",\"p\":{},\"ty\":{},\"t\":{},\"u\":{},\"ln\":{}}}",
                    place_json(tcx, body, place),
                    esc(&ty_str(t)),
                    target.as_usize(),
                    unwind_bb(unwind),
                    tln
                );
            }
            TerminatorKind::Call { func, args, destination, target, unwind, .. } => {
                s.push_str("{\"k\":\"call\",\"f\":");
                match func {
                    Operand::Constant(c) => match c.const_.ty().kind() {
                        ty::FnDef(d, a) => s.push_str(&fn_info(tcx, env, *d, a)),
                        _ => {
                            let _ = write!(s, "{{\"ptr\":{}}}", op_json(tcx, env, body, func));
                        }
                    },
                    _ => {
                        let _ = write!(s, "{{\"ptr\":{}}}", op_json(tcx, env, body, func));
                    }
                }
                s.push_str(",\"args\":[");
                for (i, a) in args.iter().enumerate() {
                    if i > 0 {
                        s.push(',');
                    }
                    s.push_str(&op_json(tcx, env, body, &a.node));
                }
                let _ = write!(
                    s,
                    "],\"d\":{},\"t\":{},\"u\":{},\"ln\":{},\"exp\":{}}}",
                    place_json(tcx, body, destination),
                    match target {
                        Some(t) => format!("{}", t.as_usize()),
                        None => "null".to_string(),
                    },
                    unwind_bb(unwind),
                    tln,
                    exp
                );
            }
            TerminatorKind::TailCall { .. } => s.push_str("{\"k\":\"tailcall\"}"),
            TerminatorKind::Assert { cond, expected, msg, target, .. } => {
                let mk = format!("{:?}", msg);
                let mk = mk.split(|c: char| c == '(' || c == ' ' || c == '{').next().unwrap_or("").to_string();
                let _ = write!(
                    s,
                    "{{\"k\":\"assert\",\"c\":{},\"e\":{},\"msg\":{},\"t\":{},\"ln\":{}}}",
                    op_json(tcx, env, body, cond),
                    expected,
                    esc(&mk),
                    target.as_usize(),
                    tln
                );
            }
            TerminatorKind::Yield { value, resume, drop, .. } => {
                let _ = write!(
                    s,
                    "{{\"k\":\"yield\",\"v\":{},\"t\":{},\"drop\":{},\"ln\":{}}}",
                    op_json(tcx, env, body, value),
                    resume.as_usize(),
                    match drop {
                        Some(d) => format!("{}", d.as_usize()),
                        None => "null".to_string(),
                    },
                    tln
                );
            }
            TerminatorKind::FalseEdge { real_target, imaginary_target } => {
                let _ = write!(
                    s,
                    "{{\"k\":\"fe\",\"t\":{},\"i\":{}}}",
                    real_target.as_usize(),
                    imaginary_target.as_usize()
                );
            }
            TerminatorKind::FalseUnwind { real_target, .. } => {
                let _ = write!(s, "{{\"k\":\"fu\",\"t\":{}}}", real_target.as_usize());
            }
            TerminatorKind::InlineAsm { .. } => s.push_str("{\"k\":\"asm\"}"),
        }
        if data.is_cleanup {
            s.push_str(",\"cl\":true");
        }
        s.push('}');
    }
    s.push_str("]}");
    Some(s)
}

fn my_provider<'tcx>(tcx: TyCtxt<'tcx>, def: LocalDefId) -> &'tcx Steal<Body<'tcx>> {
    let orig = unsafe { ORIG.unwrap() };
    let steal = orig(tcx, def);
    if wanted(tcx) {
        let kind = tcx.def_kind(def);
        if matches!(kind, DefKind::Fn | DefKind::AssocFn | DefKind::Closure) {
            let body: Body<'tcx> = steal.borrow().clone();
            // SAFETY: erased lifetime; consumed in after_analysis while tcx is still alive.
            let body: Body<'static> = unsafe { std::mem::transmute(body) };
            BODIES.with(|b| b.borrow_mut().push((def, body)));
        }
    }
    steal
}

fn adts_json<'tcx>(tcx: TyCtxt<'tcx>) -> String {
    let mut s = String::from("[");
    let mut first = true;
    for id in tcx.hir_crate_items(()).definitions() {
        let k = tcx.def_kind(id);
        if !matches!(k, DefKind::Struct | DefKind::Enum | DefKind::Union) {
            continue;
        }
        let adt = tcx.adt_def(id.to_def_id());
        if !first {
            s.push(',');
        }
        first = false;
        let (file, line) = span_line(tcx, tcx.def_span(id.to_def_id()));
        let _ = write!(
            s,
            "{{\"id\":{},\"path\":{},\"kind\":\"{:?}\",\"file\":{},\"line\":{},\"variants\":[",
            esc(&did_hash(tcx, id.to_def_id())),
            esc(&dpath(tcx, id.to_def_id())),
            k,
            esc(&file),
            line
        );
        let discrs: Vec<_> = if adt.is_enum() { adt.discriminants(tcx).map(|(_, d)| d.val).collect() } else { vec![] };
        for (vi, v) in adt.variants().iter_enumerated() {
            if vi.as_usize() > 0 {
                s.push(',');
            }
            let _ = write!(s, "{{\"name\":{}", esc(&v.name.to_string()));
            if let Some(d) = discrs.get(vi.as_usize()) {
                let _ = write!(s, ",\"discr\":{}", esc(&format!("{}", d)));
            }
            s.push_str(",\"fields\":[");
            for (fi, f) in v.fields.iter().enumerate() {
                if fi > 0 {
                    s.push(',');
                }
                let fty = tcx.type_of(f.did).instantiate_identity().skip_norm_wip();
                let mut adts: Vec<String> = Vec::new();
                for ga in fty.walk() {
                    if let Some(t) = ga.as_type() {
                        if let ty::Adt(a, _) = t.kind() {
                            let p = dpath(tcx, a.did());
                            if !adts.contains(&p) {
                                adts.push(p);
                            }
                        }
                    }
                }
                let _ = write!(
                    s,
                    "{{\"name\":{},\"ty\":{},\"pub\":{},\"adts\":[{}]}}",
                    esc(&f.name.to_string()),
                    esc(&ty_str(fty)),
                    f.vis.is_public(),
                    adts.iter().map(|a| esc(a)).collect::<Vec<_>>().join(",")
                );
            }
            s.push_str("]}");
        }
        s.push_str("]}");
    }
    s.push(']');
    s
}

fn consts_json<'tcx>(tcx: TyCtxt<'tcx>) -> String {
    let mut s = String::from("[");
    let mut first = true;
    for id in tcx.hir_crate_items(()).definitions() {
        let k = tcx.def_kind(id);
        let is_const = matches!(k, DefKind::Const { .. } | DefKind::AssocConst { .. });
        let is_static = matches!(k, DefKind::Static { .. });
        if !is_const && !is_static {
            continue;
        }
        let did = id.to_def_id();
        // skip generic / trait-declared consts without value
        if tcx.generics_of(did).requires_monomorphization(tcx) {
            continue;
        }
        if is_const && tcx.trait_of_assoc(did).is_some() {
            continue;
        }
        let t = tcx.type_of(did).instantiate_identity().skip_norm_wip();
        if !first {
            s.push(',');
        }
        first = false;
        let (file, line) = span_line(tcx, tcx.def_span(did));
        let _ = write!(
            s,
            "{{\"id\":{},\"path\":{},\"kind\":\"{}\",\"ty\":{},\"file\":{},\"line\":{}",
            esc(&did_hash(tcx, did)),
            esc(&dpath(tcx, did)),
            if is_const { "const" } else { "static" },
            esc(&ty_str(t)),
            esc(&file),
            line
        );
        if is_const {
            if let Ok(v) = tcx.const_eval_poly(did) {
                match v {
                    ConstValue::Scalar(mir::interpret::Scalar::Int(i)) => {
                        let _ = write!(s, ",\"int\":{}", esc(&format!("{}", i.to_bits_unchecked())));
                    }
                    ConstValue::Slice { .. } => {
                        if let Some(bytes) = v.try_get_slice_bytes_for_diagnostics(tcx) {
                            if let Ok(st) = std::str::from_utf8(bytes) {
                                let _ = write!(s, ",\"str\":{}", esc(st));
                            }
                        }
                    }
                    _ => {}
                }
            }
        }
        s.push('}');
    }
    s.push(']');
    s
}

fn sources_json<'tcx>(tcx: TyCtxt<'tcx>) -> String {
    let sm = tcx.sess.source_map();
    let mut s = String::from("[");
    let mut first = true;
    for f in sm.files().iter() {
        if let rustc_span::FileName::Real(r) = &f.name {
            if let Some(p) = r.local_path() {
                if f.cnum != LOCAL_CRATE {
                    continue;
                }
                if !first {
                    s.push(',');
                }
                first = false;
                let hb: String = f.src_hash.hash_bytes().iter().map(|b| format!("{:02x}", b)).collect();
                let _ = write!(
                    s,
                    "{{\"path\":{},\"alg\":{},\"hash\":{}}}",
                    esc(&p.to_string_lossy()),
                    esc(&format!("{:?}", f.src_hash.kind)),
                    esc(&hb)
                );
            }
        }
    }
    s.push(']');
    s
}

struct Cb;
impl rustc_driver::Callbacks for Cb {
    fn config(&mut self, config: &mut rustc_interface::interface::Config) {
        config.override_queries = Some(|_sess, providers| {
            unsafe {
                ORIG = Some(providers.queries.mir_built);
            }
            providers.queries.mir_built = my_provider;
        });
    }
    fn after_analysis<'tcx>(&mut self, _c: &Compiler, tcx: TyCtxt<'tcx>) -> Compilation {
        if !wanted(tcx) {
            return Compilation::Continue;
        }
        let krate = tcx.crate_name(LOCAL_CRATE).to_string();
        let out_dir = std::env::var("MIRFACTS_OUT").expect("MIRFACTS_OUT");
        let run_id = std::env::var("MIRFACTS_RUN_ID").unwrap_or_default();
        let (adts, consts, sources) = ty::print::with_resolve_crate_name!(ty::print::with_no_trimmed_paths!(
            ty::print::with_no_visible_paths!((adts_json(tcx), consts_json(tcx), sources_json(tcx)))
        ));
        let bodies: Vec<(LocalDefId, Body<'static>)> = BODIES.with(|b| std::mem::take(&mut *b.borrow_mut()));
        for (def, body) in bodies.iter() {
            let body: &Body<'tcx> = unsafe { std::mem::transmute(body) };
            let js = ty::print::with_resolve_crate_name!(ty::print::with_no_trimmed_paths!(
                ty::print::with_no_visible_paths!(process(tcx, *def, body))
            ));
            if let Some(js) = js {
                FNS.lock().unwrap().push(js);
            }
        }
        let fns = FNS.lock().unwrap();
        let crate_types: Vec<String> = tcx.crate_types().iter().map(|c| format!("{:?}", c)).collect();
        let mut s = String::with_capacity(fns.iter().map(|f| f.len() + 2).sum::<usize>() + adts.len() + 1024);
        let _ = write!(
            s,
            "{{\"crate\":{},\"run_id\":{},\"crate_types\":{},\"sources\":{},\"adts\":{},\"consts\":{},\"fns\":[\n",
            esc(&krate),
            esc(&run_id),
            esc(&crate_types.join(",")),
            sources,
            adts,
            consts
        );
        for (i, f) in fns.iter().enumerate() {
            if i > 0 {
                s.push_str(",\n");
            }
            s.push_str(f);
        }
        s.push_str("\n]}\n");
        // one fact file per (crate, crate type); written once, atomically
        let kind = if crate_types.iter().any(|c| c == "Executable") { "bin" } else { "lib" };
        let fname = format!("{}/{}.{}.json", out_dir, krate, kind);
        let tmp = format!("{}.tmp.{}", fname, std::process::id());
        std::fs::write(&tmp, s.as_bytes()).expect("write facts");
        std::fs::rename(&tmp, &fname).expect("rename facts");
        Compilation::Continue
    }
}

fn main() {
    let mut args: Vec<String> = std::env::args().collect();
    // RUSTC_WORKSPACE_WRAPPER passes the real rustc path as argv[1]
    args.remove(1);
    rustc_driver::run_compiler(&args, &mut Cb);
}
