"""Engine E2 core: program model over the MIR fact files.

CFG (normal edges only), dominators, call/await events, def-use slicing,
closure/upvar links, call graph with effect reachability, guard liveness.
Nothing here looks at source text; line numbers are carried for reports only.
"""
import os
import re
import sys
from collections import defaultdict, deque

from . import facts as _facts

NOISE_CALLEES = {
    "core::future::into_future::IntoFuture::into_future",
    "core::pin::Pin::<Ptr>::new_unchecked",
    "core::future::get_context",
    "core::future::future::Future::poll",
}
TRY_BRANCH = "core::ops::try_trait::Try::branch"
FROM_RESIDUAL = "core::ops::try_trait::FromResidual::from_residual"
POLL = "core::future::future::Future::poll"
INTO_FUTURE = "core::future::into_future::IntoFuture::into_future"
PIN_NEW_UNCHECKED = "core::pin::Pin::<Ptr>::new_unchecked"

# callees through which a value is considered to "pass" when slicing backwards
TRANSPARENT = {
    TRY_BRANCH, INTO_FUTURE, PIN_NEW_UNCHECKED,
    "core::ops::deref::Deref::deref", "core::ops::deref::DerefMut::deref_mut",
    "core::clone::Clone::clone", "core::convert::Into::into", "core::convert::From::from",
    "core::convert::AsRef::as_ref", "core::borrow::Borrow::borrow",
    "alloc::string::String::as_str", "alloc::borrow::ToOwned::to_owned",
    "alloc::string::ToString::to_string",
    "core::option::Option::<T>::unwrap", "core::result::Result::<T, E>::unwrap",
    "core::option::Option::<T>::expect", "core::result::Result::<T, E>::expect",
    "core::result::Result::<T, E>::map_err", "core::option::Option::<T>::as_ref",
    "core::option::Option::<T>::as_deref", "core::option::Option::<T>::cloned",
    "core::option::Option::<T>::copied", "core::option::Option::<T>::ok_or",
    "core::option::Option::<T>::ok_or_else", "core::option::Option::<T>::unwrap_or",
    "core::option::Option::<T>::unwrap_or_default", "core::option::Option::<T>::take",
    "alloc::vec::Vec::<T, A>::as_slice", "core::ops::index::Index::index",
    "alloc::boxed::Box::<T>::new", "alloc::boxed::Box::<T>::pin", "alloc::sync::Arc::<T>::new",
    "core::pin::Pin::<Ptr>::as_mut", "core::pin::Pin::<Ptr>::new",
    # lock acquisitions: the guard "is" the locked field for receiver slicing
    "lock_api::rwlock::RwLock::<R, T>::read", "lock_api::rwlock::RwLock::<R, T>::write",
    "lock_api::mutex::Mutex::<R, T>::lock", "lock_api::rwlock::RwLock::<R, T>::upgradable_read",
    "std::sync::poison::mutex::Mutex::<T>::lock", "std::sync::poison::rwlock::RwLock::<T>::read",
    "std::sync::poison::rwlock::RwLock::<T>::write",
}


# calls whose result is Ok/Some exactly when their first argument is Ok/Some
VARIANT_PRESERVING = {
    TRY_BRANCH, "core::result::Result::<T, E>::map_err", "core::result::Result::<T, E>::map",
    "core::option::Option::<T>::ok_or", "core::option::Option::<T>::ok_or_else", "core::option::Option::<T>::map",
}


class Place:
    __slots__ = ("l", "p")

    def __init__(self, d):
        self.l = d["l"]
        self.p = d.get("p") or []

    def fields(self):
        return [e["n"] for e in self.p if isinstance(e, dict) and "n" in e]

    def __repr__(self):
        s = "_%d" % self.l
        for e in self.p:
            if e == "*":
                s = "(*%s)" % s
            elif isinstance(e, dict) and "n" in e:
                s += "." + e["n"]
            elif isinstance(e, dict) and "d" in e:
                s = "(%s as %s)" % (s, e["d"])
            else:
                s += "[..]"
        return s


def op_place(o):
    """Place of a copy/move operand or None for constants."""
    if o is None:
        return None
    if "c" in o:
        return Place(o["c"])
    if "m" in o:
        return Place(o["m"])
    return None


def op_const(o):
    return o.get("k") if o else None


def op_is_move(o):
    return "m" in o


class Event:
    """A call / await / closure-creation / fn-reference site in a function."""
    __slots__ = ("fn", "kind", "block", "idx", "call_block", "callee", "rcallee", "cid", "rid", "finfo",
                 "args", "dest", "line", "target", "awaited", "exp", "ops", "poll_dest", "poll_block")

    def __init__(self, fn, kind, block, idx):
        self.fn = fn
        self.kind = kind
        self.block = block
        self.idx = idx
        self.call_block = block
        self.callee = None
        self.rcallee = None
        self.cid = None
        self.rid = None
        self.finfo = None
        self.args = []
        self.dest = None
        self.line = 0
        self.target = None
        self.awaited = False
        self.exp = False
        self.ops = []
        self.poll_dest = None
        self.poll_block = None

    @property
    def name(self):
        return self.rcallee or self.callee or "?"

    def names(self):
        return [n for n in (self.callee, self.rcallee) if n]

    def where(self):
        return "%s:%d" % (self.fn.file, self.line)

    def __repr__(self):
        return "<%s %s @bb%d %s>" % (self.kind, self.name, self.block, self.where())


class Fn:
    def __init__(self, d, crate, prog):
        self.d = d
        self.prog = prog
        self.crate = crate
        self.id = d["id"]
        self.path = d["path"]
        self.kind = d["kind"]
        self.file = d.get("file", "")
        self.line = d.get("line", 0)
        self.blocks = d["blocks"]
        self.locals = d["locals"]
        self.dbg = d["dbg"]
        self.argc = d["argc"]
        self.coroutine = d.get("coroutine")
        self.parent = d.get("parent")
        self.vis = d.get("vis")
        self.upvars = d.get("upvars") or []
        self.impl_adt = d.get("impl_adt")
        self.impl_self = d.get("impl_self")
        self.impl_trait = d.get("impl_trait")
        self.trait_item = d.get("trait_item")
        self.n = len(self.blocks)
        self._succ = None
        self._pred = None
        self._dom = None
        self._pdom = None
        self._events = None
        self._defs = None
        self._reach_cache = {}

    def __repr__(self):
        return "<Fn %s>" % self.path

    # ------------------------------------------------------------ CFG
    def term(self, b):
        return self.blocks[b]["t"]

    def stmts(self, b):
        return self.blocks[b]["s"]

    def is_cleanup(self, b):
        return bool(self.blocks[b].get("cl"))

    @property
    def succ(self):
        if self._succ is None:
            succ = []
            for b, blk in enumerate(self.blocks):
                t = blk["t"]
                k = t["k"]
                out = []
                if blk.get("cl"):
                    succ.append(out)
                    continue
                if k == "goto" or k == "fe" or k == "fu" or k == "drop" or k == "assert" or k == "yield":
                    out.append(t["t"])
                elif k == "call":
                    if t["t"] is not None:
                        out.append(t["t"])
                elif k == "switch":
                    for _, tb in t["v"]:
                        if tb not in out:
                            out.append(tb)
                    if t["else"] not in out:
                        out.append(t["else"])
                succ.append(out)
            self._succ = succ
        return self._succ

    @property
    def pred(self):
        if self._pred is None:
            pred = [[] for _ in range(self.n)]
            for b, ss in enumerate(self.succ):
                for s in ss:
                    pred[s].append(b)
            self._pred = pred
        return self._pred

    def reachable_from(self, starts, avoid=(), include_start=True):
        """Blocks reachable from `starts` over normal edges without entering `avoid` blocks."""
        avoid = set(avoid)
        seen = set()
        dq = deque()
        for s in starts:
            if include_start:
                if s not in avoid and s not in seen:
                    seen.add(s)
                    dq.append(s)
            else:
                for x in self.succ[s]:
                    if x not in avoid and x not in seen:
                        seen.add(x)
                        dq.append(x)
        while dq:
            b = dq.popleft()
            for x in self.succ[b]:
                if x not in avoid and x not in seen:
                    seen.add(x)
                    dq.append(x)
        return seen

    def live_blocks(self):
        key = "live"
        if key not in self._reach_cache:
            self._reach_cache[key] = self.reachable_from([0])
        return self._reach_cache[key]

    def return_blocks(self):
        live = self.live_blocks()
        return [b for b in live if self.term(b)["k"] == "ret"]

    def _compute_dom(self, succ, pred, root):
        # Cooper-Harvey-Kennedy
        order = []
        seen = set()
        stack = [(root, iter(succ[root]))]
        seen.add(root)
        while stack:
            b, it = stack[-1]
            adv = False
            for x in it:
                if x not in seen:
                    seen.add(x)
                    stack.append((x, iter(succ[x])))
                    adv = True
                    break
            if not adv:
                order.append(b)
                stack.pop()
        rpo = list(reversed(order))
        idx = {b: i for i, b in enumerate(rpo)}
        idom = {root: root}

        def intersect(a, b):
            while a != b:
                while idx[a] > idx[b]:
                    a = idom[a]
                while idx[b] > idx[a]:
                    b = idom[b]
            return a
        changed = True
        while changed:
            changed = False
            for b in rpo[1:]:
                new = None
                for p in pred[b]:
                    if p in idom:
                        new = p if new is None else intersect(p, new)
                if new is not None and idom.get(b) != new:
                    idom[b] = new
                    changed = True
        return idom

    @property
    def idom(self):
        if self._dom is None:
            self._dom = self._compute_dom(self.succ, self.pred, 0)
        return self._dom

    def dominates(self, a, b):
        """block a dominates block b (both reachable)."""
        idom = self.idom
        if b not in idom or a not in idom:
            return False
        while True:
            if a == b:
                return True
            nb = idom[b]
            if nb == b:
                return False
            b = nb

    def must_pass(self, through, target_blocks, start=0):
        """True iff every path start -> any target block passes through a block of `through`
        (strictly before reaching the target unless target itself is in through)."""
        through = set(through)
        tb = set(target_blocks) - through
        if not tb:
            return True
        if start in through:
            return True
        reach = self.reachable_from([start], avoid=through)
        return not (reach & tb)

    def can_reach(self, a_blocks, b_blocks, avoid=(), strict=True):
        """Is there a path from (after) some block of a_blocks to some block in b_blocks?"""
        r = self.reachable_from(list(a_blocks), avoid=avoid, include_start=not strict)
        return bool(r & set(b_blocks))

    # ------------------------------------------------------------ defs
    @property
    def defs(self):
        """local -> list of (block, idx, kind, data); kind in assign/call/arg."""
        if self._defs is None:
            defs = defaultdict(list)
            for b, blk in enumerate(self.blocks):
                if blk.get("cl"):
                    continue
                for i, st in enumerate(blk["s"]):
                    if st[0] == "A":
                        defs[st[1]["l"]].append((b, i, "assign", st))
                t = blk["t"]
                if t["k"] == "call":
                    defs[t["d"]["l"]].append((b, len(blk["s"]), "call", t))
            self._defs = defs
        return self._defs

    def local_ty(self, l):
        return self.locals[l]

    def var_locals(self, name):
        """Locals (whole-local places) bound to the user variable `name`."""
        out = []
        for d in self.dbg:
            if d["n"] == name and "p" in d and not d["p"].get("p"):
                out.append(d["p"]["l"])
        return out

    def var_name(self, l):
        for d in self.dbg:
            if "p" in d and d["p"]["l"] == l and not d["p"].get("p"):
                return d["n"]
        return None

    # ------------------------------------------------------------ events
    @property
    def events(self):
        if self._events is None:
            self._events = self._build_events()
        return self._events

    def _build_events(self):
        evs = []
        by_call_block = {}
        live = self.live_blocks()
        for b, blk in enumerate(self.blocks):
            if blk.get("cl") or b not in live:
                continue
            for i, st in enumerate(blk["s"]):
                if st[0] != "A":
                    continue
                rv = st[2]
                if rv["k"] == "agg" and rv["a"]["t"] in ("closure", "coroutine", "coroutine_closure"):
                    e = Event(self, "create", b, i)
                    e.callee = rv["a"]["path"]
                    e.cid = rv["a"]["id"]
                    e.ops = rv["ops"]
                    e.dest = Place(st[1])
                    e.line = st[3] if len(st) > 3 else 0
                    evs.append(e)
                # fn item references in operands
                for o in _rvalue_operands(rv):
                    k = o.get("k")
                    if k and "fn" in k:
                        e = Event(self, "ref", b, i)
                        _fill_callee(e, k["fn"])
                        e.line = st[3] if len(st) > 3 else 0
                        evs.append(e)
            t = blk["t"]
            if t["k"] == "call":
                f = t["f"]
                e = Event(self, "call", b, len(blk["s"]))
                if "ptr" in f:
                    e.callee = "<fnptr>"
                    e.finfo = f
                else:
                    _fill_callee(e, f)
                e.args = t["args"]
                e.dest = Place(t["d"])
                e.line = t.get("ln", 0)
                e.target = t["t"]
                e.exp = t.get("exp", False)
                evs.append(e)
                by_call_block[b] = e
                for o in t["args"]:
                    k = o.get("k")
                    if k and "fn" in k:
                        r = Event(self, "ref", b, len(blk["s"]))
                        _fill_callee(r, k["fn"])
                        r.line = t.get("ln", 0)
                        evs.append(r)
        # map poll sites back to the call that constructed the awaited future
        self._events = evs          # phase-1 events are visible to the slicer below
        self._ev_at = {e.call_block: e for e in evs if e.kind == "call"}
        self._cr_at = {(e.block, e.idx): e for e in evs if e.kind == "create"}
        for e in list(evs):
            if e.kind == "call" and e.callee == POLL:
                origins = self.slice_back_op(e.args[0], through=lambda ev: ev.callee in (PIN_NEW_UNCHECKED, INTO_FUTURE,
                                                                                            "core::pin::Pin::<Ptr>::as_mut",
                                                                                            "core::ops::deref::DerefMut::deref_mut"))
                ctor = [o[1] for o in origins if o[0] == "call"]
                creates = [o[1] for o in origins if o[0] == "create"]
                if len(ctor) == 1 and not creates:
                    c = ctor[0]
                    c.awaited = True
                    c.block = e.block
                    c.idx = e.idx
                    c.poll_dest = e.dest
                    c.poll_block = e.block
                elif len(creates) == 1 and not ctor:
                    c = creates[0]
                    a = Event(self, "await", e.block, e.idx)
                    a.callee = c.callee
                    a.cid = c.cid
                    a.line = e.line
                    a.awaited = True
                    a.poll_dest = e.dest
                    a.poll_block = e.block
                    a.call_block = c.block
                    evs.append(a)
                else:
                    a = Event(self, "await", e.block, e.idx)
                    a.callee = e.rcallee or ("<await %s>" % (e.finfo.get("self") if e.finfo else "?"))
                    a.rid = e.rid
                    a.line = e.line
                    a.awaited = True
                    a.poll_dest = e.dest
                    a.poll_block = e.block
                    evs.append(a)
        return evs

    def calls(self, pred=None, noise=False):
        out = []
        for e in self.events:
            if e.kind not in ("call", "await"):
                continue
            if not noise and e.callee in NOISE_CALLEES:
                continue
            if pred is None or pred(e):
                out.append(e)
        return out

    def calls_named(self, *pats):
        """Call/await events whose generic or resolved callee path matches one of the regexes."""
        rx = [re.compile(p) for p in pats]
        return self.calls(lambda e: any(r.search(n) for r in rx for n in e.names()))

    def creates(self):
        return [e for e in self.events if e.kind == "create"]

    # ------------------------------------------------------------ slicing
    def slice_back_op(self, o, through=None, depth=0, seen=None):
        p = op_place(o)
        if p is None:
            k = op_const(o)
            return [("const", k)] if k is not None else []
        return self.slice_back_local(p.l, through=through, seen=seen, proj=p)

    def slice_back_local(self, l, through=None, seen=None, proj=None, agg_descend=True):
        """Origins of the value in local `l`: list of (kind, obj).

        kinds: call (Event), create (Event), const (dict), arg (local index), upvar (name),
        agg (stmt), other (stmt).  `through(ev)` says whether a call passes its
        arguments' values through (default: TRANSPARENT set)."""
        if through is None:
            through = lambda ev: ev.callee in TRANSPARENT
        if seen is None:
            seen = set()
        out = []
        work = [(l, proj)]
        self.events
        ev_at = self._ev_at
        cr_at = self._cr_at
        while work:
            l, proj = work.pop()
            if l in seen:
                continue
            seen.add(l)
            # closure environment / coroutine state: an upvar
            if l == 1 and self.kind == "Closure" and proj is not None and proj.fields():
                out.append(("upvar", proj.fields()[0]))
                continue
            ds = self.defs.get(l, [])
            if not ds:
                if 1 <= l <= self.argc:
                    out.append(("arg", l))
                continue
            if 1 <= l <= self.argc:
                out.append(("arg", l))
            for (b, i, kind, data) in ds:
                if kind == "call":
                    ev = ev_at.get(b)
                    if ev is None:
                        continue
                    if through(ev):
                        for a in ev.args:
                            ap = op_place(a)
                            if ap is not None:
                                work.append((ap.l, ap))
                            elif op_const(a) is not None:
                                out.append(("const", op_const(a)))
                    else:
                        out.append(("call", ev))
                else:
                    rv = data[2]
                    k = rv["k"]
                    if k in ("use", "cast", "un", "repeat"):
                        o = rv["o"]
                        ap = op_place(o)
                        if ap is not None:
                            work.append((ap.l, ap))
                        elif op_const(o) is not None:
                            out.append(("const", op_const(o)))
                    elif k in ("ref", "rawptr", "cfd", "discr"):
                        ap = Place(rv["p"])
                        work.append((ap.l, ap))
                    elif k == "agg":
                        a = rv["a"]
                        if a["t"] in ("closure", "coroutine", "coroutine_closure"):
                            out.append(("create", cr_at[(b, i)]))
                        else:
                            out.append(("agg", data))
                            ops_ = rv["ops"] if agg_descend else ()
                            # field-sensitive through tuples: `(t.1)` where `t = (a, b)` comes from b only
                            if ops_ and a["t"] == "tuple" and proj is not None and proj.l == l and proj.p and isinstance(proj.p[0], dict) \
                                    and "f" in proj.p[0] and proj.p[0]["f"] < len(ops_):
                                ops_ = [ops_[proj.p[0]["f"]]]
                            for o in ops_:
                                ap = op_place(o)
                                if ap is not None:
                                    work.append((ap.l, ap))
                                elif op_const(o) is not None:
                                    out.append(("const", op_const(o)))
                    elif k == "bin":
                        for o in (rv["a"], rv["b"]):
                            ap = op_place(o)
                            if ap is not None:
                                work.append((ap.l, ap))
                            elif op_const(o) is not None:
                                out.append(("const", op_const(o)))
                    else:
                        out.append(("other", data))
        return out

    def slice_fields(self, o, through=None):
        """Field names mentioned by places on the backward slice of operand `o`
        (e.g. the receiver `self.operation_gate.clone()` yields {'operation_gate'})."""
        out = set()
        p = op_place(o)
        if p is None:
            return out
        if through is None:
            through = lambda ev: ev.callee in TRANSPARENT
        self.events
        seen = set()
        work = [p]
        while work:
            pl = work.pop()
            out.update(pl.fields())
            if pl.l in seen:
                continue
            seen.add(pl.l)
            if pl.l == 1 and self.kind == "Closure":
                continue
            for (b, i, kind, data) in self.defs.get(pl.l, []):
                if kind == "call":
                    ev = self._ev_at.get(b)
                    if ev is not None and through(ev):
                        for a in ev.args:
                            ap = op_place(a)
                            if ap is not None:
                                work.append(ap)
                else:
                    rv = data[2]
                    for o2 in _rvalue_operands(rv):
                        ap = op_place(o2)
                        if ap is not None:
                            work.append(ap)
                    if rv["k"] in ("ref", "rawptr", "cfd", "discr"):
                        work.append(Place(rv["p"]))
        return out

    def value_origins(self, l):
        """Where the value switched on / used in local `l` was produced: list of
        ('event', Event) for call/await results (poll sites are mapped to the awaited event),
        ('agg', adt, variant) for enum/struct literals, ('const', k), ('arg', n), ('other', x)."""
        out = []
        self.events
        poll2ev = {e.poll_block: e for e in self._events if e.awaited and e.poll_block is not None}
        for o in self.slice_back_local(l, through=lambda ev: ev.callee in (TRY_BRANCH,), agg_descend=False):
            if o[0] == "call":
                ev = o[1]
                if ev.callee == POLL and ev.call_block in poll2ev:
                    out.append(("event", poll2ev[ev.call_block]))
                else:
                    out.append(("event", ev))
            elif o[0] == "agg":
                a = o[1][2]["a"]
                out.append(("agg", a.get("def"), a.get("v")))
            else:
                out.append(o)
        return out

    def derived_locals(self, start_locals, through=None, include_call_results=True, call_filter=None, mut_args=False):
        """Forward may-flow closure inside this function: locals whose value may derive from
        any of `start_locals` through assignments, refs, aggregates and (optionally) calls.
        mut_args=True: a call with a tainted argument also taints every local it receives by `&mut`
        (hashers, buffers filled through extend_from_slice, ...)."""
        tainted = set(start_locals)
        mutref = {}
        if mut_args:
            for l, ds in self.defs.items():
                for (b, i, kind, data) in ds:
                    if kind == "assign" and data[2]["k"] == "ref" and data[2].get("m") == "mut":
                        mutref.setdefault(l, set()).add(data[2]["p"]["l"])
                    elif kind == "assign" and data[2]["k"] == "use":
                        q = op_place(data[2]["o"])
                        if q is not None:
                            mutref.setdefault(l, set()).add(("alias", q.l))
            # resolve reborrows (`_10 = &mut *_11; _11 = &mut _3`) and moves of references transitively
            ch = True
            while ch:
                ch = False
                for l in list(mutref):
                    for base in list(mutref[l]):
                        tgt = base[1] if isinstance(base, tuple) else base
                        for x in mutref.get(tgt, ()):
                            if x not in mutref[l]:
                                mutref[l].add(x)
                                ch = True
            for l in list(mutref):
                mutref[l] = {b for b in mutref[l] if not isinstance(b, tuple)}
                if not mutref[l]:
                    del mutref[l]
        changed = True
        while changed:
            changed = False
            for b, blk in enumerate(self.blocks):
                if blk.get("cl"):
                    continue
                for st in blk["s"]:
                    if st[0] != "A":
                        continue
                    dl = st[1]["l"]
                    if dl in tainted:
                        continue
                    if any(l in tainted for l in _rvalue_locals(st[2])):
                        tainted.add(dl)
                        changed = True
                t = blk["t"]
                if t["k"] == "call" and include_call_results:
                    if any((op_place(a) is not None and op_place(a).l in tainted) for a in t["args"]):
                        if call_filter is not None and not call_filter(t):
                            continue
                        dl = t["d"]["l"]
                        if dl not in tainted:
                            tainted.add(dl)
                            changed = True
                        if mut_args:
                            for a in t["args"]:
                                ap = op_place(a)
                                if ap is not None:
                                    for base in mutref.get(ap.l, ()):
                                        if base not in tainted:
                                            tainted.add(base)
                                            changed = True
        return tainted

    # ------------------------------------------------------------ variant edges
    def switch_info(self, b):
        """For a switch block: (scrutinee Place of the Discriminant, enum info or None, {value:target}, else)
        or for a bool/int switch: (operand place, None, ...)."""
        t = self.term(b)
        if t["k"] != "switch":
            return None
        op = op_place(t["o"])
        vals = {v: tb for v, tb in t["v"]}
        if op is None:
            return (None, None, vals, t["else"])
        # find discriminant def in the same or dominating block
        for (db, di, kind, data) in self.defs.get(op.l, []):
            if kind == "assign" and data[2]["k"] == "discr":
                return (Place(data[2]["p"]), data[2].get("e"), vals, t["else"])
        return (op, None, vals, t["else"])

    def variant_edges(self):
        """List of (switch_block, scrutinee_place, adt, {variant_name: target_block}, else_target)."""
        key = "vedges"
        if key in self._reach_cache:
            return self._reach_cache[key]
        out = []
        for b in self.live_blocks():
            if self.term(b)["k"] != "switch":
                continue
            si = self.switch_info(b)
            if si is None or si[0] is None:
                continue
            place, e, vals, els = si
            if e:
                m = {}
                for v, tb in vals.items():
                    name = e["vs"].get(v)
                    if name is not None:
                        m[name] = tb
                # else edge covers the remaining variants if it is not an unreachable block
                rest = [n for v, n in e["vs"].items() if n not in m]
                if self.term(els)["k"] != "unreachable":
                    for n in rest:
                        m[n] = els
                out.append((b, place, e["adt"], m, els))
            else:
                m = {}
                for v, tb in vals.items():
                    m["false" if v == "0" else "v" + v] = tb
                m["true" if list(vals) == ["0"] else "else"] = els
                out.append((b, place, None, m, els))
        self._reach_cache[key] = out
        return out

    def result_edges(self, e):
        """(ok_targets, err_targets) of the Result produced by call/await event e: `?`, match, if-let
        (only Result/ControlFlow scrutinees — a nested Option is not an error edge)."""
        src = e.poll_dest.l if e.poll_dest is not None else e.dest.l
        oks, errs = [], []
        for (_, adt, m) in self.outcome_edges(src):
            if adt not in ("core::result::Result", "core::ops::control_flow::ControlFlow"):
                continue
            if "ok" in m:
                oks.append(m["ok"])
            if "err" in m:
                errs.append(m["err"])
        return oks, errs

    def outcome_edges(self, src_local):
        """Variant edges whose scrutinee derives from `src_local` (through moves, Try::branch,
        Poll::Ready payloads).  Names are normalised: Continue->Ok/Some is reported as 'Continue'
        plus the alias 'ok'; Break->'err'.  Returns list of (switch_block, adt, {name: target})."""
        der = self.derived_locals([src_local], call_filter=lambda t: t["f"].get("path") in VARIANT_PRESERVING)
        out = []
        for (b, place, adt, m, els) in self.variant_edges():
            if place.l in der:
                mm = dict(m)
                if "Continue" in mm:
                    mm["ok"] = mm["Continue"]
                if "Break" in mm:
                    mm["err"] = mm["Break"]
                if "Ok" in mm:
                    mm["ok"] = mm["Ok"]
                if "Err" in mm:
                    mm["err"] = mm["Err"]
                if "Some" in mm:
                    mm["ok"] = mm["Some"]
                if "None" in mm:
                    mm["err"] = mm["None"]
                out.append((b, adt, mm))
        return out


def _fill_callee(e, f):
    e.finfo = f
    e.callee = f.get("path")
    e.cid = f.get("id")
    e.rcallee = f.get("rpath")
    e.rid = f.get("rid")


def _rvalue_operands(rv):
    k = rv["k"]
    if k in ("use", "cast", "un", "repeat"):
        return [rv["o"]]
    if k == "bin":
        return [rv["a"], rv["b"]]
    if k == "agg":
        return rv["ops"]
    return []


def _rvalue_locals(rv):
    out = []
    for o in _rvalue_operands(rv):
        p = op_place(o)
        if p is not None:
            out.append(p.l)
    if rv["k"] in ("ref", "rawptr", "cfd", "discr"):
        out.append(rv["p"]["l"])
    return out


INLINE_LOG = []     # one entry per Program in which helpers absent from the pinned tree were made transparent (lib/inline.py)


class Program:
    def __init__(self, crates):
        self.crates = {}
        self.fns = {}
        self.by_path = defaultdict(list)
        self.adts = {}
        self.consts = {}
        self.trait_impls = defaultdict(list)   # trait item path -> [Fn]
        self.children = defaultdict(list)      # parent id -> closures
        for c in crates:
            kind = "lib"
            if ":" in c:
                c, kind = c.split(":")
            data = _facts.load_crate(c, kind)
            self.crates[c + ":" + kind] = data
            for fd in data["fns"]:
                f = Fn(fd, c, self)
                if f.id in self.fns:
                    continue
                self.fns[f.id] = f
                self.by_path[f.path].append(f)
                if f.trait_item:
                    self.trait_impls[f.trait_item].append(f)
                if f.parent:
                    self.children[f.parent].append(f)
            for a in data["adts"]:
                self.adts[a["path"]] = a
            for k in data["consts"]:
                self.consts[k["path"]] = k
        self._callees = {}
        self._reach = {}
        self.inlined = {}
        self.inlined_into = {}
        if os.environ.get("VERIF_NO_INLINE") != "1":
            from . import inline as _inline
            r_ = _inline.apply(self, Fn)
            if r_.get("new_functions"):
                INLINE_LOG.append({"crates": sorted(self.crates), "new_functions": r_["new_functions"][:40], "inlined_sites": r_["inlined_sites"],
                                   "removed": r_["removed"][:40], "kept": r_["kept"]})
            self._callees = {}
            self._reach = {}

    # ------------------------------------------------------------ lookup
    def fn(self, path, body=True):
        """The function with this def path.  For an `async fn` (or a fn whose whole body is one
        `async move` block / Box::pin(async move {..})) return the coroutine body when body=True."""
        fs = self.by_path.get(path)
        if not fs:
            raise KeyError("anchor missing: fn %s" % path)
        f = fs[0]
        if body:
            return self.async_body(f) or f
        return f

    def has_fn(self, path):
        return path in self.by_path

    def async_body(self, f):
        """If f only constructs a coroutine defined directly inside it, return that coroutine body."""
        if f.coroutine:
            return None
        cor = [e for e in f.events if e.kind == "create" and e.cid in self.fns and self.fns[e.cid].coroutine
               and self.fns[e.cid].parent == f.id]
        if len(cor) == 1 and f.n <= 12:
            return self.fns[cor[0].cid]
        return None

    def fns_matching(self, rx):
        r = re.compile(rx)
        return [f for f in self.fns.values() if r.search(f.path)]

    def outer_fn(self, f):
        """The named fn a closure (transitively) belongs to."""
        seen = 0
        while f.parent and seen < 64:
            seen += 1
            if f.parent in self.fns:
                f = self.fns[f.parent]
            elif f.parent in self.inlined_into and self.inlined_into[f.parent] in self.fns:
                f = self.fns[self.inlined_into[f.parent]]      # the helper this closure was written in now lives in its caller
            else:
                break
        return f

    def closures_of(self, f, recursive=True):
        out = []
        work = [f]
        while work:
            x = work.pop()
            for c in self.children.get(x.id, []):
                out.append(c)
                if recursive:
                    work.append(c)
        return out

    def adt(self, path):
        a = self.adts.get(path)
        if a is None:
            raise KeyError("anchor missing: adt %s" % path)
        return a

    # ------------------------------------------------------------ call graph
    def callee_nodes(self, e):
        """Call-graph successors denoted by an event: fn ids (workspace) or 'ext:<path>'."""
        out = []
        if e.kind == "create":
            if e.cid in self.fns:
                out.append(e.cid)
            return out
        if e.kind == "await" and e.cid and e.cid in self.fns:
            return [e.cid]
        if e.rid and e.rid in self.fns:
            out.append(e.rid)
        elif e.cid and e.cid in self.fns and not (e.finfo or {}).get("trait"):
            out.append(e.cid)
        elif e.finfo and e.finfo.get("trait") and not e.rid:
            # unresolved trait call: class-hierarchy approximation over workspace impls
            impls = self.trait_impls.get(e.callee, [])
            out.extend(i.id for i in impls)
            if e.cid in self.fns:      # default method body
                out.append(e.cid)
            out.append("ext:" + e.callee)
        elif e.finfo and e.finfo.get("virtual"):
            impls = self.trait_impls.get(e.callee, [])
            out.extend(i.id for i in impls)
            out.append("ext:" + e.callee)
        else:
            if e.rid and e.cid in self.fns:
                out.append(e.cid)
            out.append("ext:" + (e.rcallee or e.callee or "?"))
            if e.rcallee and e.callee and e.rcallee != e.callee:
                out.append("ext:" + e.callee)
        return out

    def callees(self, fid):
        if fid not in self._callees:
            f = self.fns[fid]
            s = set()
            for e in f.events:
                if e.callee in NOISE_CALLEES and not (e.rid and e.rid in self.fns):
                    continue
                for n in self.callee_nodes(e):
                    s.add(n)
            # a value of a workspace type that implements an *external* trait (e.g. a hand-written
            # nom Parser) may be driven by external generic code: add edges to those impl methods
            if not hasattr(self, "_ext_impls"):
                self._ext_impls = defaultdict(list)
                crates = {c.split(":")[0] for c in self.crates}
                for g in self.fns.values():
                    if g.impl_adt and g.impl_trait and g.impl_trait.split("::")[0] not in crates and g.impl_adt.split("::")[0] in crates:
                        if g.impl_trait.split("::")[0] in ("core", "alloc", "std", "serde", "serde_core"):
                            continue
                        self._ext_impls[g.impl_adt].append(g.id)
            if self._ext_impls:
                tys = set(f.locals)
                for blk in f.blocks:
                    for st in blk["s"]:
                        if st[0] == "A":
                            if st[2]["k"] == "agg" and st[2]["a"].get("def"):
                                tys.add(st[2]["a"]["def"])
                            for o in _rvalue_operands(st[2]):
                                k = o.get("k")
                                if k and "ty" in k:
                                    tys.add(k["ty"])
                    if blk["t"]["k"] == "call":
                        for o in blk["t"]["args"]:
                            k = o.get("k")
                            if k and "ty" in k:
                                tys.add(k["ty"])
                for t in tys:
                    base = t.split("<")[0]
                    if base in self._ext_impls:
                        for gid in self._ext_impls[base]:
                            if gid != fid:
                                s.add(gid)
            self._callees[fid] = s
        return self._callees[fid]

    def reach_set(self, start_ids, stop=None):
        """All call-graph nodes reachable from the given fn ids (ids and ext: nodes)."""
        seen = set()
        dq = deque(start_ids)
        for s in start_ids:
            seen.add(s)
        while dq:
            n = dq.popleft()
            if n.startswith("ext:") or n not in self.fns:
                continue
            if stop is not None and stop(n):
                continue
            for c in self.callees(n):
                if c not in seen:
                    seen.add(c)
                    dq.append(c)
        return seen

    def all_nodes_rev(self):
        if not hasattr(self, "_rev"):
            rev = defaultdict(set)
            for fid in self.fns:
                for c in self.callees(fid):
                    rev[c].add(fid)
            self._rev = rev
        return self._rev

    def reaching(self, is_target, stop=None):
        """Set of call-graph nodes (fn ids and the matching target nodes themselves) from which a node
        satisfying is_target(node, fn) is reachable.  Propagation does not continue *through* fns for
        which stop(node, fn) holds (they are included themselves, their callers are not added via them)."""
        rev = self.all_nodes_rev()
        targets = set()
        for n in list(rev.keys()) + list(self.fns.keys()):
            if is_target(n, self.fns.get(n)):
                targets.add(n)
        seen = set(targets)
        dq = deque(targets)
        while dq:
            n = dq.popleft()
            if stop is not None and n in self.fns and n not in targets and stop(n, self.fns[n]):
                continue
            if stop is not None and n in self.fns and n in targets and stop(n, self.fns[n]):
                continue
            for p in rev.get(n, ()):
                if p not in seen:
                    seen.add(p)
                    dq.append(p)
        return seen

    def event_in(self, e, nodeset):
        return any(n in nodeset for n in self.callee_nodes(e))

    def find_path(self, start_id, is_target, stop=None):
        """Shortest call-graph path from start to a node satisfying is_target(node_key, fn_or_None)."""
        prev = {start_id: None}
        dq = deque([start_id])
        while dq:
            n = dq.popleft()
            f = self.fns.get(n)
            if n != start_id and is_target(n, f):
                path = []
                while n is not None:
                    path.append(self.node_name(n))
                    n = prev[n]
                return list(reversed(path))
            if f is None:
                continue
            if stop is not None and n != start_id and stop(n, f):
                continue
            for c in self.callees(n):
                if c not in prev:
                    prev[c] = n
                    dq.append(c)
        return None

    def node_name(self, n):
        if n in self.fns:
            return self.fns[n].path
        return n

    def event_reaches(self, e, is_target, stop=None):
        """Does the event's callee (or anything it may call) satisfy is_target?  Returns a path or None."""
        for n in self.callee_nodes(e):
            f = self.fns.get(n)
            if is_target(n, f):
                return [self.node_name(n)]
            if f is not None:
                if stop is not None and stop(n, f):
                    continue
                p = self.find_path(n, is_target, stop)
                if p:
                    return p
        return None

    def callers_of(self, pred):
        """(fn, event) pairs for events whose callee nodes include a node satisfying pred(node, fn)."""
        out = []
        for f in self.fns.values():
            for e in f.events:
                if e.kind == "ref" or e.kind == "call" or e.kind == "await" or e.kind == "create":
                    for n in self.callee_nodes(e):
                        if pred(n, self.fns.get(n)):
                            out.append((f, e))
                            break
        return out


def ext_matcher(*regexes):
    rx = [re.compile(r) for r in regexes]

    def m(node, fn):
        name = fn.path if fn is not None else (node[4:] if node.startswith("ext:") else node)
        return any(r.search(name) for r in rx)
    return m


# ------------------------------------------------------------ guard liveness
def guard_flow(fn, acquire_events, guard_ty_rx, extra_kill=None):
    """Forward must-hold dataflow for a guard value.

    A guard is born in the destination local of an acquire event.  It moves along
    `move` assignments / calls whose destination type still mentions the guard type;
    it dies at Drop of its holder, at a move into a call whose result type does not
    mention the guard type, or where extra_kill(event) says so.
    Returns (held_in, held_out): per block, frozenset of holder locals at block entry/exit
    (empty = not held on some path / never acquired).  Must-analysis: meet is
    'empty if any predecessor is empty'."""
    rx = re.compile(guard_ty_rx)

    def holds_ty(l):
        return bool(rx.search(fn.locals[l]))
    acq_blocks = {}
    for e in acquire_events:
        # the guard appears in the poll destination for awaited acquires, else in the call dest
        acq_blocks[e.block] = e
    ev_by_block = {}
    for e in fn.events:
        if e.kind == "call":
            ev_by_block[e.call_block] = e
    TOP = None
    out_state = {b: TOP for b in range(fn.n)}
    in_state = {b: TOP for b in range(fn.n)}
    live = fn.live_blocks()

    def transfer(b, state):
        state = set(state)
        blk = fn.blocks[b]
        for st in blk["s"]:
            if st[0] != "A":
                continue
            dl = st[1]["l"]
            rv = st[2]
            moved_from = []
            for o in _rvalue_operands(rv):
                if "m" in o and o["m"]["l"] in state:
                    # a partial move (`x = move h.0`) takes the guard along only if the destination's
                    # type still mentions the guard type; otherwise another field was moved out
                    if o["m"].get("p") and not holds_ty(dl):
                        continue
                    moved_from.append(o["m"]["l"])
            if moved_from:
                for m in moved_from:
                    state.discard(m)
                if holds_ty(dl):
                    state.add(dl)
            elif dl in state and not st[1].get("p"):
                # overwritten
                state.discard(dl)
        t = blk["t"]
        k = t["k"]
        if k == "drop":
            pl = t["p"]
            if pl["l"] in state and not pl.get("p"):
                state.discard(pl["l"])
        elif k == "call":
            moved = [a["m"]["l"] for a in t["args"] if "m" in a and a["m"]["l"] in state]
            ev = ev_by_block.get(b)
            if moved:
                for m in moved:
                    state.discard(m)
                if holds_ty(t["d"]["l"]):
                    state.add(t["d"]["l"])
            if ev is not None and extra_kill is not None and extra_kill(ev, state):
                state.clear()
            if b in acq_blocks:
                e = acq_blocks[b]
                dl = (e.poll_dest.l if e.poll_dest is not None else t["d"]["l"])
                state.add(dl)
        return frozenset(state)
    # iterate
    changed = True
    order = sorted(live)
    while changed:
        changed = False
        for b in order:
            preds = [p for p in fn.pred[b] if p in live]
            if b == 0:
                ins = frozenset()
            else:
                ins = TOP
                for p in preds:
                    o = out_state[p]
                    if o is TOP:
                        continue
                    if ins is TOP:
                        ins = o
                    elif not o or not ins:
                        ins = frozenset()
                    else:
                        ins = ins | o
                if ins is TOP:
                    continue
            outs = transfer(b, ins)
            if in_state[b] != ins or out_state[b] != outs:
                in_state[b] = ins
                out_state[b] = outs
                changed = True
    return in_state, out_state
