"""Sensitivity self-test of the rule engine (thorough tier).

For one property, every variant recorded in /verif/selftest/<ID>.json (a one-site edit of the
repository that breaks a structural clause of the property while still compiling) and every
confirmed seeded change under /verif/seeded/*/ that names the property is applied, one at a
time, to a *scratch copy of /repo's current working tree* (outside /repo and /verif, removed
afterwards).  The driver re-extracts the facts of the scratch copy and the property's rules are
run on them; the variant counts as detected when the rules report a violation whose key contains
one of the variant's expected key fragments.  Nothing is executed except the compiler front end
and the rule engine: the variants are never run.

What this decides is about the *checker*, not the property: that on today's tree each rule
instance still has teeth (a rule that silently matches nothing, or an anchor that drifted to a
different function, shows up as a missed variant).  Variants whose anchor text no longer occurs
in the tree, or which no longer compile, are skipped and listed; they are not failures.

Variants marked `"benign": true` are the opposite control: behaviour-preserving rewrites of an anchored
site (another idiom for the same check, a reordering of independent steps) on which the rules must stay
silent; a report on one of them is a false alarm of the checker and is listed under `false_alarms`.
"""
import glob
import json
import os
import shutil
import subprocess
import sys
import tempfile
import time

VERIF = os.path.dirname(os.path.dirname(os.path.abspath(__file__)))
REPO = os.environ.get("VERIF_REPO", "/repo")


def load_table(pid):
    out = []
    p = os.path.join(VERIF, "selftest", "%s.json" % pid)
    if os.path.exists(p):
        for m in json.load(open(p)):
            m = dict(m)
            if "patch" in m:
                m["kind"] = "patch"
                m["patch"] = os.path.join(VERIF, m["patch"])
            else:
                m["kind"] = "edit"
            out.append(m)
    for meta in sorted(glob.glob(os.path.join(VERIF, "seeded", "*", "meta.json"))):
        try:
            md = json.load(open(meta))
        except Exception:
            continue
        det = md.get("detected_by", {})
        if pid in det:
            out.append({"kind": "patch", "name": "seeded/" + os.path.basename(os.path.dirname(meta)),
                        "patch": os.path.join(os.path.dirname(meta), "patch.diff"),
                        "expect": det[pid]})
    # behaviour-preserving refactorings produced by sub-agents: the rules must stay silent on each
    for meta in sorted(glob.glob(os.path.join(VERIF, "benign", "*", "meta.json"))):
        try:
            md = json.load(open(meta))
        except Exception:
            continue
        if pid not in md.get("checked_with", []):
            continue
        for r in md.get("refactorings", []):
            out.append({"kind": "patch", "benign": True, "name": "benign/%s/%s" % (os.path.basename(os.path.dirname(meta)), r["file"]),
                        "patch": os.path.join(os.path.dirname(meta), r["file"])})
    return out


class Scratch:
    """A scratch copy of the working tree with its own fact cache."""

    def __init__(self, seed_target=True):
        base = os.environ.get("VERIF_SCRATCH") or tempfile.gettempdir()
        self.root = tempfile.mkdtemp(prefix="verif-selftest-", dir=base)
        self.repo = os.path.join(self.root, "repo")
        self.cache = os.path.join(self.root, "cache")
        self.out = os.path.join(self.root, "out")
        os.makedirs(self.cache)
        os.makedirs(self.out)
        subprocess.check_call(["rsync", "-a", "--exclude", "/target", "--exclude", "/.git", REPO + "/", self.repo + "/"])
        # reuse the compiled third-party dependencies of the main cache (registry crates are
        # path-independent); workspace crates are rebuilt because their path differs
        main_target = os.path.join(os.environ.get("VERIF_CACHE", os.path.join(VERIF, ".cache")), "target")
        if seed_target and os.path.isdir(main_target):
            subprocess.check_call(["cp", "-a", main_target, os.path.join(self.cache, "target")])

    def env(self):
        e = dict(os.environ)
        e.update({"VERIF_REPO": self.repo, "VERIF_CACHE": self.cache, "VERIF_OUT": self.out})
        return e

    def check(self, pid):
        """Run the quick rules of `pid` on the scratch copy.  -> (rc, [violation keys], stdout)"""
        rp = os.path.join(self.out, "replay", "%s.json" % pid)
        try:
            os.remove(rp)
        except FileNotFoundError:
            pass
        r = subprocess.run([sys.executable, os.path.join(VERIF, "check"), pid, "--tier", "quick"], env=self.env(),
                           stdout=subprocess.PIPE, stderr=subprocess.STDOUT, text=True)
        keys = []
        if r.returncode == 1 and os.path.exists(rp):
            keys = [v["key"] for v in json.load(open(rp))["violations"]]
        return r.returncode, keys, r.stdout

    def apply(self, m):
        """-> (ok, why, undo)"""
        if m["kind"] == "edit":
            p = os.path.join(self.repo, m["rel"])
            if not os.path.exists(p):
                return False, "file missing", None
            src = open(p).read()
            n = src.count(m["old"])
            idx = m.get("nth", 0)
            if n <= idx:
                return False, "anchor text not found", None
            parts = src.split(m["old"])
            mutated = m["old"].join(parts[:idx + 1]) + m["new"] + m["old"].join(parts[idx + 1:])
            open(p, "w").write(mutated)

            def undo():
                open(p, "w").write(src)
            return True, "", undo
        else:
            r = subprocess.run(["patch", "-p1", "--no-backup-if-mismatch", "-s", "-f", "-i", m["patch"]], cwd=self.repo,
                               stdout=subprocess.PIPE, stderr=subprocess.STDOUT, text=True)
            if r.returncode != 0:
                # roll back whatever applied
                subprocess.run(["rsync", "-a", "--exclude", "/target", "--exclude", "/.git", "--delete",
                                REPO + "/", self.repo + "/"])
                return False, "patch does not apply", None

            def undo():
                subprocess.run(["patch", "-p1", "-R", "--no-backup-if-mismatch", "-s", "-f", "-i", m["patch"]],
                               cwd=self.repo, stdout=subprocess.PIPE, stderr=subprocess.STDOUT)
            return True, "", undo

    def close(self):
        shutil.rmtree(self.root, ignore_errors=True)


def run(pid, only=None, verbose=True, keep_going=True):
    """-> dict(applied, detected, missed[], skipped[], baseline_rc, wall_s)"""
    table = load_table(pid)
    if only:
        table = [m for m in table if only in m["name"]]
    res = {"variants": len(table), "applied": 0, "detected": 0, "missed": [], "skipped": [], "results": []}
    if not table:
        return res
    t0 = time.time()
    sc = Scratch()
    try:
        rc, keys, out = sc.check(pid)
        res["baseline_rc"] = rc
        if rc != 0:
            res["skipped"] = [{"name": m["name"], "why": "baseline of the scratch copy does not pass (rc=%d)" % rc} for m in table]
            return res
        for m in table:
            ok, why, undo = sc.apply(m)
            if not ok:
                res["skipped"].append({"name": m["name"], "why": why})
                continue
            try:
                rc, keys, out = sc.check(pid)
            finally:
                undo()
            if rc == 2 and ("fact extraction failed" in out):
                res["skipped"].append({"name": m["name"], "why": "variant does not compile on this tree"})
                continue
            if m.get("benign"):
                # behaviour-preserving refactoring: the rules must stay silent on it
                res["benign_applied"] = res.get("benign_applied", 0) + 1
                if rc == 0:
                    res["benign_silent"] = res.get("benign_silent", 0) + 1
                else:
                    res.setdefault("false_alarms", []).append({"name": m["name"], "rc": rc, "reported": keys[:6],
                                                               "tail": out.strip().splitlines()[-3:]})
                res["results"].append({"name": m["name"], "benign": True, "rc": rc, "reported": keys[:6]})
                if verbose:
                    print("  [selftest] %-60s %s" % (m["name"][:60], "benign: silent" if rc == 0 else "FALSE ALARM rc=%d %r" % (rc, keys[:3])), file=sys.stderr)
                continue
            res["applied"] += 1
            exp = m.get("expect") or []
            hit = [k for k in keys if any(e in k for e in exp)] if exp else keys
            entry = {"name": m["name"], "rc": rc, "reported": keys[:6], "matched": hit[:3]}
            if rc == 1 and hit:
                res["detected"] += 1
                entry["detected"] = True
            else:
                entry["detected"] = False
                res["missed"].append({"name": m["name"], "rc": rc, "reported": keys[:6],
                                      "tail": out.strip().splitlines()[-3:] if rc == 2 else []})
            res["results"].append(entry)
            if verbose:
                print("  [selftest] %-60s %s" % (m["name"][:60], "detected: " + hit[0] if entry["detected"] else "MISSED rc=%d %r" % (rc, keys[:3])),
                      file=sys.stderr)
    finally:
        sc.close()
    res["wall_s"] = round(time.time() - t0, 1)
    return res


if __name__ == "__main__":
    import argparse
    ap = argparse.ArgumentParser()
    ap.add_argument("prop")
    ap.add_argument("--only")
    a = ap.parse_args()
    r = run(a.prop.upper(), a.only)
    print(json.dumps(r, indent=1))
