"""Path-sensitive propagation of small constant domains (a finite set of integer values of one
atomically loaded state word, plus the booleans computed from it).

Abstract state at a block = set of environments; an environment maps tracked locals to integers.
A `load` event forks its destination over the given domain.  Switches on a tracked local follow
only the matching edge.  Everything else is forgotten (sound: unknown locals take every edge)."""
from collections import deque

from . import core

OTHER = "other"


def _operand_val(env, o):
    k = o.get("k")
    if k is not None:
        v = k.get("int")
        return int(v) if v is not None else None
    p = core.op_place(o)
    if p is not None and not p.p:
        return env.get(p.l)
    return None


def _binop(op, a, b):
    if a is None or b is None or a == OTHER or b == OTHER:
        return None
    try:
        return int({"Eq": a == b, "Ne": a != b, "Lt": a < b, "Le": a <= b, "Gt": a > b, "Ge": a >= b}[op])
    except KeyError:
        return None


def _apply_stmts(blk, env):
    for st in blk["s"]:
        if st[0] != "A":
            continue
        dl = st[1]["l"]
        if st[1].get("p"):
            continue
        rv = st[2]
        k = rv["k"]
        val = None
        if k == "use":
            val = _operand_val(env, rv["o"])
        elif k == "bin":
            val = _binop(rv["op"], _operand_val(env, rv["a"]), _operand_val(env, rv["b"]))
        elif k == "un" and rv["op"] == "Not":
            v = _operand_val(env, rv["o"])
            val = (1 - v) if v in (0, 1) else None
        if val is None:
            env.pop(dl, None)
        else:
            env[dl] = val


def analyse(fn, load_blocks, domain, max_states=20000):
    """load_blocks: {block: dest_local} for calls that load the state word.
    domain: iterable of ints (an extra OTHER value stands for anything else).
    Returns {block: set(frozenset(env.items()))} — environments at block *entry*."""
    dom = list(domain) + [OTHER]
    at = {b: set() for b in range(fn.n)}
    start = frozenset()
    at[0].add(start)
    work = deque([(0, start)])
    nstates = 1
    while work:
        b, envf = work.popleft()
        env = dict(envf)
        blk = fn.blocks[b]
        _apply_stmts(blk, env)
        t = blk["t"]
        k = t["k"]
        outs = []
        if k == "call":
            dl = t["d"]["l"]
            if t["t"] is not None:
                if b in load_blocks:
                    for v in dom:
                        e2 = dict(env)
                        e2[load_blocks[b]] = v
                        outs.append((t["t"], e2))
                else:
                    e2 = dict(env)
                    e2.pop(dl, None)
                    outs.append((t["t"], e2))
        elif k == "switch":
            p = core.op_place(t["o"])
            v = env.get(p.l) if (p is not None and not p.p) else None
            if v is None:
                for s in fn.succ[b]:
                    outs.append((s, env))
            else:
                tgt = None
                for val, tb in t["v"]:
                    if v != OTHER and int(val) == v:
                        tgt = tb
                if tgt is None:
                    tgt = t["else"]
                outs.append((tgt, env))
        else:
            for s in fn.succ[b]:
                outs.append((s, env))
        for (s, e2) in outs:
            if fn.is_cleanup(s):
                continue
            ef = frozenset(e2.items())
            if ef not in at[s]:
                at[s].add(ef)
                nstates += 1
                if nstates > max_states:
                    raise RuntimeError("valueflow: state explosion in %s" % fn.path)
                work.append((s, ef))
    return at


def values_at(at, block, local):
    """Possible values of `local` at entry of `block` (None in the set = unknown)."""
    out = set()
    for envf in at.get(block, ()):
        env = dict(envf)
        out.add(env.get(local))
    return out


def values_at_term(fn, at, block, local):
    """Possible values of `local` at the terminator of `block`."""
    out = set()
    for envf in at.get(block, ()):
        env = dict(envf)
        _apply_stmts(fn.blocks[block], env)
        out.add(env.get(local))
    return out
