"""Path-sensitive exploration of a function's CFG under a small constant abstraction.

Abstract state at a block = set of environments.  An environment maps
  * plain locals            -> int        (constants, results of comparisons on known values, loaded state word)
  * ("discr", local, proj)  -> variant name of the enum stored in that place (memo)
  * ("dsrc", local)         -> (base local, proj)  : `local = discriminant(place)`
  * ("denum", local)        -> {value: variant name}
  * ("bsrc", local)         -> (base, proj, name_if_true, name_if_false) : `local = x.is_some()` etc.
Switches on a known value follow only the matching edge; switches on a discriminant (or on an
is_some/is_err result) of a not-yet-known place follow every edge but *remember* the variant each
edge implies, so a second test of the same place is correlated with the first.
Everything unknown takes every edge (sound over-approximation of feasible paths).

Used for: lifecycle transition source states (C06), `if let Some(doc)` / `doc.is_some()`
correlations in must-pass-through rules (C01, C02, C04)."""
from collections import deque

from . import core

OTHER = "other"

_BOOL_TESTS = {
    "core::option::Option::<T>::is_some": ("Some", "None"),
    "core::option::Option::<T>::is_none": ("None", "Some"),
    "core::result::Result::<T, E>::is_ok": ("Ok", "Err"),
    "core::result::Result::<T, E>::is_err": ("Err", "Ok"),
}


def _operand_val(env, o):
    k = o.get("k")
    if k is not None:
        v = k.get("int")
        return int(v) if v is not None else None
    p = core.op_place(o)
    if p is not None and not p.p:
        return env.get(p.l)
    return None


def _binop(op, a, b):
    if a is None or b is None or a == OTHER or b == OTHER:
        return None
    try:
        return int({"Eq": a == b, "Ne": a != b, "Lt": a < b, "Le": a <= b, "Gt": a > b, "Ge": a >= b}[op])
    except KeyError:
        return None


def _base_of(fn, place, depth=0):
    """Resolve a place to (local, projection-string), peeling `*_t` where `_t` is assigned exactly
    once from `&Q` (so `discr(*_t)` and `discr(Q)` share one memo key)."""
    l = place["l"]
    proj = place.get("p") or []
    if proj and proj[0] == "*" and depth < 4:
        ds = fn.defs.get(l, [])
        if len(ds) == 1 and ds[0][2] == "assign" and ds[0][3][2]["k"] in ("ref", "cfd"):
            inner = ds[0][3][2]["p"]
            b = _base_of(fn, inner, depth + 1)
            rest = proj[1:]
            return (b[0], b[1] + (repr(rest) if rest else ""))
        if len(ds) == 1 and ds[0][2] == "assign" and ds[0][3][2]["k"] == "use":
            ip = core.op_place(ds[0][3][2]["o"])
            if ip is not None and not ip.p:
                return _base_of(fn, {"l": ip.l, "p": proj}, depth + 1)
    return (l, repr(proj) if proj else "")


_VARIANT_VIEWS = {
    "core::option::Option::<T>::as_ref", "core::option::Option::<T>::as_mut", "core::option::Option::<T>::as_deref",
    "core::option::Option::<T>::as_deref_mut", "core::result::Result::<T, E>::as_ref", "core::result::Result::<T, E>::as_mut",
}


def _alias(env, base):
    """`x.as_ref()` has the variant of `x`: tests of the view are recorded against (and read from) the viewed place."""
    if base[1] == "":
        al = env.get(("alias", base[0]))
        if al is not None:
            return al
    return base


def _kill_memo(env, local):
    for key in [key for key in env if isinstance(key, tuple) and key[0] == "discr" and key[1] == local]:
        env.pop(key, None)


def _apply_stmts(fn, blk, env):
    for st in blk["s"]:
        if st[0] == "DEAD":
            l = st[1]
            env.pop(l, None)
            env.pop(("dsrc", l), None)
            env.pop(("denum", l), None)
            env.pop(("bsrc", l), None)
            env.pop(("alias", l), None)
            _kill_memo(env, l)
            continue
        if st[0] != "A":
            continue
        dl = st[1]["l"]
        rv = st[2]
        k = rv["k"]
        _kill_memo(env, dl)
        if k == "ref" and rv.get("m") == "mut":
            _kill_memo(env, rv["p"]["l"])
            if not rv["p"].get("p"):
                env.pop(rv["p"]["l"], None)      # a remembered value of a local does not survive a mutable borrow
        if st[1].get("p"):
            continue
        env.pop(("dsrc", dl), None)
        env.pop(("bsrc", dl), None)
        env.pop(("alias", dl), None)
        val = None
        if k == "discr":
            base = _alias(env, _base_of(fn, rv["p"]))
            env[("dsrc", dl)] = base
            if rv.get("e"):
                env[("denum", dl)] = tuple(sorted(rv["e"]["vs"].items()))
                name = env.get(("discr",) + base)
                if name is not None:
                    for v, n in rv["e"]["vs"].items():
                        if n == name:
                            val = int(v)
        elif k == "use":
            val = _operand_val(env, rv["o"])
            p = core.op_place(rv["o"])
            if p is not None and not p.p:
                m = env.get(("discr", p.l, ""))
                if m is not None:
                    env[("discr", dl, "")] = m
                bs = env.get(("bsrc", p.l))
                if bs is not None:
                    env[("bsrc", dl)] = bs
                al = env.get(("alias", p.l))
                if al is not None:
                    env[("alias", dl)] = al
        elif k == "agg" and rv["a"]["t"] == "adt" and rv["a"].get("v"):
            adt = fn.prog.adts.get(rv["a"]["def"]) if fn.prog is not None else None
            if rv["a"]["def"] in ("core::option::Option", "core::result::Result") or (adt and adt["kind"] == "Enum"):
                env[("discr", dl, "")] = rv["a"]["v"]
        elif k == "bin":
            val = _binop(rv["op"], _operand_val(env, rv["a"]), _operand_val(env, rv["b"]))
        elif k == "un" and rv["op"] == "Not":
            v = _operand_val(env, rv["o"])
            val = (1 - v) if v in (0, 1) else None
            p = core.op_place(rv["o"])
            if p is not None and not p.p and env.get(("bsrc", p.l)) is not None:
                b0, b1, nt, nf = env[("bsrc", p.l)]
                env[("bsrc", dl)] = (b0, b1, nf, nt)
        if val is None:
            env.pop(dl, None)
        else:
            env[dl] = val


def _bool_roots(fn, blk, l):
    """The tested temporary and the bool locals it was copied from / negated from inside this block: [(local, negated)]."""
    out = [(l, False)]
    cur, neg = l, False
    for st in reversed(blk["s"]):
        if st[0] != "A" or st[1].get("p") or st[1]["l"] != cur:
            continue
        rv = st[2]
        src = None
        if rv["k"] == "use":
            src = core.op_place(rv["o"])
        elif rv["k"] == "un" and rv["op"] == "Not":
            src = core.op_place(rv["o"])
            neg = not neg
        if src is None or src.p or fn.locals[src.l] != "bool":
            break
        cur = src.l
        out.append((cur, neg))
    return out


def analyse(fn, load_blocks=None, domain=(), max_states=300000, avoid=(), start=0, marks=(), init=None):
    """load_blocks: {block: dest_local} for calls that load a state word forked over `domain`.
    Returns {block: set(frozenset(env.items()))} — environments at block *entry* (avoid blocks are
    entered but not left)."""
    dom = list(domain) + [OTHER]
    load_blocks = load_blocks or {}
    avoid = set(avoid)
    at = {b: set() for b in range(fn.n)}
    start_env = frozenset((init or {}).items())     # assumptions holding at the entry of `start`
    at[start].add(start_env)
    work = deque([(start, start_env)])
    nstates = 1
    while work:
        b, envf = work.popleft()
        if b in avoid:
            continue
        env = dict(envf)
        blk = fn.blocks[b]
        if b in marks:
            env[("mark",)] = 1          # ghost: "this path went through a marked block"
        _apply_stmts(fn, blk, env)
        t = blk["t"]
        k = t["k"]
        outs = []
        if k == "call":
            dl = t["d"]["l"]
            if t["t"] is not None:
                if b in load_blocks:
                    for v in dom:
                        e2 = dict(env)
                        e2[load_blocks[b]] = v
                        e2[("ghost", b)] = v      # survives StorageDead of the temp
                        outs.append((t["t"], e2))
                else:
                    e2 = dict(env)
                    e2.pop(dl, None)
                    e2.pop(("dsrc", dl), None)
                    e2.pop(("bsrc", dl), None)
                    _kill_memo(e2, dl)
                    # a call that receives `&mut local` may change its variant
                    for a in t["args"]:
                        if "m" in a and not a["m"].get("p"):
                            ml = a["m"]["l"]
                            for (db, di, kind, data) in fn.defs.get(ml, []):
                                if kind == "assign" and data[2]["k"] == "ref" and data[2].get("m") == "mut":
                                    _kill_memo(e2, data[2]["p"]["l"])
                    e2.pop(("alias", dl), None)
                    path = t["f"].get("path")
                    if path in _VARIANT_VIEWS and t["args"] and not t["d"].get("p"):
                        ap = t["args"][0].get("m") or t["args"][0].get("c")
                        if ap is not None:
                            e2[("alias", dl)] = _alias(e2, _base_of(fn, {"l": ap["l"], "p": ["*"] + (ap.get("p") or [])}))
                    if path in _BOOL_TESTS and t["args"] and not t["d"].get("p"):
                        ap = t["args"][0].get("m") or t["args"][0].get("c")
                        if ap is not None:
                            # the argument is `&place`
                            base = _alias(e2, _base_of(fn, {"l": ap["l"], "p": ["*"] + (ap.get("p") or [])}))
                            nt, nf = _BOOL_TESTS[path]
                            known = e2.get(("discr",) + base)
                            if known is not None:
                                e2[dl] = 1 if known == nt else 0
                            else:
                                e2[("bsrc", dl)] = (base[0], base[1], nt, nf)
                    outs.append((t["t"], e2))
        elif k == "switch":
            p = core.op_place(t["o"])
            plain = p is not None and not p.p
            v = env.get(p.l) if plain else None
            if v is not None:
                tgt = None
                for val, tb in t["v"]:
                    if v != OTHER and int(val) == v:
                        tgt = tb
                if tgt is None:
                    tgt = t["else"]
                outs.append((tgt, env))
            elif plain and env.get(("dsrc", p.l)) is not None and env.get(("denum", p.l)) is not None:
                src = env[("dsrc", p.l)]
                names = dict(env[("denum", p.l)])
                listed = set()
                for val, tb in t["v"]:
                    e2 = dict(env)
                    n = names.get(val)
                    if n is not None:
                        e2[("discr",) + src] = n
                    listed.add(val)
                    outs.append((tb, e2))
                rest = [n for vv, n in names.items() if vv not in listed]
                e2 = dict(env)
                if len(rest) == 1:
                    e2[("discr",) + src] = rest[0]
                outs.append((t["else"], e2))
            elif plain and env.get(("bsrc", p.l)) is not None:
                b0, b1, nt, nf = env[("bsrc", p.l)]
                for val, tb in t["v"]:
                    e2 = dict(env)
                    if val == "0":
                        e2[("discr", b0, b1)] = nf
                    outs.append((tb, e2))
                e2 = dict(env)
                if [val for val, _ in t["v"]] == ["0"]:
                    e2[("discr", b0, b1)] = nt
                outs.append((t["else"], e2))
            elif plain and fn.locals[p.l] == "bool" and [val for val, _ in t["v"]] == ["0"]:
                # an untracked bool: both edges are feasible, but each remembers what the test answered, so a later test of
                # the same flag (or of a copy of it) on this path agrees with this one
                roots = _bool_roots(fn, blk, p.l)
                e0 = dict(env)
                e1 = dict(env)
                for (r_, neg) in roots:
                    e0[r_] = 1 if neg else 0
                    e1[r_] = 0 if neg else 1
                outs.append((t["v"][0][1], e0))
                outs.append((t["else"], e1))
            else:
                for s in fn.succ[b]:
                    outs.append((s, env))
        else:
            for s in fn.succ[b]:
                outs.append((s, env))
        for (s, e2) in outs:
            if fn.is_cleanup(s):
                continue
            ef = frozenset(e2.items())
            if ef not in at[s]:
                at[s].add(ef)
                nstates += 1
                if nstates > max_states:
                    raise RuntimeError("valueflow: state explosion in %s" % fn.path)
                work.append((s, ef))
    return at


def values_at(at, block, local):
    out = set()
    for envf in at.get(block, ()):
        out.add(dict(envf).get(local))
    return out


def values_at_term(fn, at, block, local):
    """Possible values of `local` at the terminator of `block`."""
    out = set()
    for envf in at.get(block, ()):
        env = dict(envf)
        _apply_stmts(fn, fn.blocks[block], env)
        out.add(env.get(local))
    return out


def must_pass_ps(fn, through, targets, start=0, init=None):
    """Path-sensitive must-pass-through: no feasible path (under this abstraction) reaches a target
    block from `start` without entering a `through` block."""
    through = set(through)
    tg = set(targets) - through
    if not tg:
        return True
    try:
        at = analyse(fn, avoid=through, start=start, init=init)
    except RuntimeError:
        return fn.must_pass(through, tg, start=start)
    return not any(at[b] for b in tg)


def reachable_ps(fn, start, avoid=(), init=None):
    try:
        at = analyse(fn, avoid=avoid, start=start, init=init)
    except RuntimeError:
        return fn.reachable_from([start], avoid=avoid)
    return {b for b in at if at[b]}


def reachable_if_result(fn, call_event, value, avoid=()):
    """Blocks reachable after `call_event` returned, on the assumption that its (bool / small int) result is `value`."""
    t = fn.term(call_event.block)
    if t["k"] != "call" or t.get("t") is None or t["d"].get("p"):
        return fn.reachable_from([call_event.block], avoid=avoid)
    return reachable_ps(fn, t["t"], avoid=avoid, init={t["d"]["l"]: value})


def reaches_after_mark(fn, marks, targets):
    """Is there a feasible path entry -> (a marked block) -> ... -> a target block?"""
    marks = set(marks)
    try:
        at = analyse(fn, marks=marks)
    except RuntimeError:
        return bool(fn.reachable_from(list(marks)) & set(targets))
    for b in targets:
        for envf in at.get(b, ()):
            if (("mark",), 1) in envf:
                return True
    return False
