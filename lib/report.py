"""Obligation bookkeeping, evidence files, known findings, exit codes."""
import json
import os
import sys
import time

VERIF = os.path.dirname(os.path.dirname(os.path.abspath(__file__)))
# evidence/ and replay/ are written under OUT (the self-test redirects them to its scratch dir)
OUT = os.environ.get("VERIF_OUT", VERIF)


class CheckerFault(Exception):
    """The checker could not decide (missing anchor, instance count below the confirmed floor).
    Reported as exit 2, never as a property verdict."""


class Report:
    def __init__(self, prop, tier="quick", seed=0):
        self.prop = prop
        self.tier = tier
        self.seed = seed
        self.t0 = time.time()
        self.obs = []          # (rule, key, ok, detail, site)
        self.floors = {}       # rule -> floor
        self.notes = {}
        self.rules = {}        # rule id -> description
        self.fns_analysed = set()
        self.sites = 0
        self.faults = []
        self.assumptions = []
        self.not_decided = ""
        self.extra = {}        # extra coverage keys (thorough tier: sensitivity)

    # -------------------------------------------------------------- recording
    def rule(self, rid, desc, floor=None):
        self.rules[rid] = desc
        if floor is not None:
            self.floors[rid] = floor

    def ob(self, rule, key, ok, detail="", site=""):
        """One obligation (rule instance).  key must not contain line numbers."""
        self.obs.append((rule, key, bool(ok), detail, site))
        return bool(ok)

    def saw(self, fn, nsites=0):
        self.fns_analysed.add(fn.path if hasattr(fn, "path") else str(fn))
        self.sites += nsites

    def fault(self, msg):
        self.faults.append(msg)

    def note(self, k, v):
        self.notes[k] = v

    # -------------------------------------------------------------- finishing
    def finish(self, explanation):
        known = load_known()
        per_rule = {}
        for (r, k, ok, d, s) in self.obs:
            c = per_rule.setdefault(r, [0, 0])
            c[0] += 1
            c[1] += 1 if ok else 0
        for r, fl in self.floors.items():
            n = per_rule.get(r, [0, 0])[0]
            if n < fl:
                self.fault("rule %s matched %d instance(s), below the confirmed floor %d (anchor drift?)" % (r, n, fl))
        viol = []
        kf = []
        seen = set()
        for (r, k, ok, d, s) in self.obs:
            if ok:
                continue
            full = "%s|%s" % (r, k)
            if full in seen:
                continue
            seen.add(full)
            ent = known.get((self.prop, full))
            if ent is not None and not ent.get("demonstrated_only"):
                kf.append((full, ent, d, s))
            else:
                viol.append((full, d, s))
        demonstrated = [e for (p_, k_), e in sorted(known.items()) if p_ == self.prop and e.get("demonstrated_only")]
        wall = time.time() - self.t0
        os.makedirs(os.path.join(OUT, "evidence"), exist_ok=True)
        samples = []
        for (r, k, ok, d, s) in self.obs:
            if len(samples) >= 12:
                break
            if not any(x["rule"] == r for x in samples) or len(samples) < 6:
                samples.append({"rule": r, "instance": k, "held": ok, "site": s, "detail": d})
        nob = len(self.obs)
        ndis = sum(1 for o in self.obs if o[2])
        ev = {
            "property_id": self.prop,
            "tier": self.tier,
            "seed": self.seed,
            "level": "other",
            "coverage": {
                "explanation": explanation,
                "obligations": nob,
                "discharged": ndis,
                "known_findings_reported": len(kf),
                "demonstrated_findings_listed": [e["key"] for e in demonstrated],
                "rules": {r: {"what": self.rules.get(r, ""), "instances": per_rule.get(r, [0, 0])[0],
                              "held": per_rule.get(r, [0, 0])[1], "floor": self.floors.get(r)} for r in
                          sorted(set(list(self.rules) + list(per_rule)))},
                "functions_analysed": len(self.fns_analysed),
                "call_sites_examined": self.sites,
                "functions": sorted(self.fns_analysed)[:60],
                "samples": samples,
                "exhaustive": False,
                "not_decided": self.not_decided,
                "notes": self.notes,
                "checker_faults": self.faults,
            },
            "assumptions": self.assumptions,
            "wall_s": round(wall, 3),
            "violations": len(viol),
        }
        ev["coverage"].update(self.extra)
        try:
            from . import core as _core
            if _core.INLINE_LOG:
                ev["coverage"]["helpers_made_transparent"] = _core.INLINE_LOG
        except Exception:
            pass
        with open(os.path.join(OUT, "evidence", "%s.json" % self.prop), "w") as f:
            json.dump(ev, f, indent=1, sort_keys=False)
        print("%s: %d obligations over %d functions / %d sites; %d held, %d known finding(s), %d violation(s) [%.1fs]" % (
            self.prop, nob, len(self.fns_analysed), self.sites, ndis, len(kf), len(viol), wall))
        for r in sorted(per_rule):
            print("  rule %-7s %3d/%-3d %s" % (r, per_rule[r][1], per_rule[r][0], self.rules.get(r, "")[:110]))
        for (full, ent, d, s) in kf:
            print("KNOWN-FINDING: property=%s %s — %s" % (self.prop, full, ent.get("what", "")))
        # defects reproduced against the real code (tests under findings/) that no static rule decides: listed so that they are
        # not lost, never matched against a reported key (they suppress nothing)
        for ent in demonstrated:
            print("KNOWN-FINDING: property=%s %s — %s [reproduced by %s; not decided by a static rule]" % (
                self.prop, ent["key"], ent.get("what", ""), ent.get("failing_input", "?")))
        if self.faults:
            for m in self.faults:
                print("CHECKER-FAULT property=%s %s" % (self.prop, m))
        rc = 0
        if viol:
            os.makedirs(os.path.join(OUT, "replay"), exist_ok=True)
            rp = os.path.join(OUT, "replay", "%s.json" % self.prop)
            with open(rp, "w") as f:
                json.dump({"property": self.prop, "violations": [
                    {"key": full, "detail": d, "site": s} for (full, d, s) in viol]}, f, indent=1)
            for (full, d, s) in viol:
                print("  violated: %s\n      at %s\n      %s" % (full, s, d))
            print("VIOLATION property=%s replay=%s" % (self.prop, rp))
            rc = 1
        elif self.faults:
            rc = 2
        return rc


def load_known():
    p = os.path.join(VERIF, "known_findings.json")
    out = {}
    if os.path.exists(p):
        data = json.load(open(p))
        for e in data.get("findings", []):
            out[(e["property"], e["key"])] = e
    return out
