"""Make helper functions that did not exist on the pinned tree transparent.

Every rule anchors on functions of the pinned tree (by def path).  A function whose path is not in
`rules/pinned_fns.txt.gz` was introduced after the rules were written - typically a private helper
extracted from an anchored function ("extract method").  Such a helper is *inlined* at its call
sites, at the level of the fact files: the helper's blocks and locals are appended to the caller,
the call (or, for an `async fn` helper, the poll of its future) is replaced by a jump into the
copy, and the helper's returns jump back with the result assigned.  All rules then see the anchored
function exactly as if the code had never been moved, including the order of effects inside the
helper, locks taken or released by it, and its error exits.  Following Min et al.: "treat a wrapper
as acquires-the-lock when all its paths return with the lock held" - here by construction.

A new function is left alone (and stays an ordinary call-graph node, i.e. a possible new entry point
or new writer that the who-may-call / effect rules still see) when it is public, recursive, referenced
as a fn item, or has a call site that cannot be inlined; a private helper all of whose call sites
were inlined is removed from the whole-program scans (its body now lives in its callers).
"""
import copy
import gzip
import os

VERIF = os.path.dirname(os.path.dirname(os.path.abspath(__file__)))
PINNED = os.path.join(VERIF, "rules", "pinned_fns.txt.gz")
POLL = "core::future::future::Future::poll"


def load_pinned():
    if not os.path.exists(PINNED):
        return None
    with gzip.open(PINNED, "rt") as f:
        return set(l.rstrip("\n") for l in f)


def write_pinned(paths):
    with gzip.open(PINNED, "wt") as f:
        for p in sorted(paths):
            f.write(p + "\n")


# ------------------------------------------------------------------ renumbering
def _place(p, lo):
    q = {"l": p["l"] + lo}
    if p.get("p"):
        q["p"] = [({"i": e["i"] + lo} if isinstance(e, dict) and "i" in e else e) for e in p["p"]]
    return q


def _op(o, lo):
    if "c" in o:
        return {"c": _place(o["c"], lo)}
    if "m" in o:
        return {"m": _place(o["m"], lo)}
    return o


def _rvalue(rv, lo):
    r = dict(rv)
    k = rv["k"]
    if k in ("use", "cast", "un", "repeat"):
        r["o"] = _op(rv["o"], lo)
    elif k in ("ref", "rawptr", "cfd", "discr"):
        r["p"] = _place(rv["p"], lo)
    elif k == "bin":
        r["a"] = _op(rv["a"], lo)
        r["b"] = _op(rv["b"], lo)
    elif k == "agg":
        r["ops"] = [_op(o, lo) for o in rv["ops"]]
    return r


def _stmt(st, lo):
    if st[0] == "A":
        return ["A", _place(st[1], lo), _rvalue(st[2], lo)] + list(st[3:])
    if st[0] == "SD":
        return ["SD", _place(st[1], lo)] + list(st[2:])
    if st[0] == "DEAD":
        return ["DEAD", st[1] + lo]
    return st


def _term(t, lo, bo):
    r = dict(t)
    k = t["k"]
    bb = lambda x: None if x is None else x + bo
    if k in ("goto", "fu"):
        r["t"] = bb(t["t"])
    elif k == "fe":
        r["t"] = bb(t["t"])
        r["i"] = bb(t.get("i"))
    elif k == "switch":
        r["o"] = _op(t["o"], lo)
        r["v"] = [[v, bb(b)] for v, b in t["v"]]
        r["else"] = bb(t["else"])
    elif k == "drop":
        r["p"] = _place(t["p"], lo)
        r["t"] = bb(t["t"])
        r["u"] = bb(t.get("u"))
    elif k == "call":
        f = t["f"]
        if "ptr" in f:
            f = {"ptr": _op(f["ptr"], lo)}
        r["f"] = f
        r["args"] = [_op(a, lo) for a in t["args"]]
        r["d"] = _place(t["d"], lo)
        r["t"] = bb(t["t"])
        r["u"] = bb(t.get("u"))
    elif k == "assert":
        r["c"] = _op(t["c"], lo)
        r["t"] = bb(t["t"])
    elif k == "yield":
        r["v"] = _op(t["v"], lo)
        r["t"] = bb(t["t"])
        r["drop"] = bb(t.get("drop"))
    return r


def _copy_body(hd, lo, bo):
    blocks = []
    for blk in hd["blocks"]:
        nb = {"s": [_stmt(st, lo) for st in blk["s"]], "t": _term(blk["t"], lo, bo)}
        if blk.get("cl"):
            nb["cl"] = True
        blocks.append(nb)
    dbg = []
    for d in hd.get("dbg", []):
        e = dict(d)
        if "p" in d:
            e["p"] = _place(d["p"], lo)
        e.pop("arg", None)
        dbg.append(e)
    return blocks, dbg


def _callee_id(t):
    f = t.get("f") or {}
    return f.get("rid") or f.get("id")


# ------------------------------------------------------------------ one call site
RESULTISH = ("core::result::Result", "core::ops::control_flow::ControlFlow")


def continuations(tmp, src_local, chain_start):
    """How the caller branches on the helper's result: {"ok": (chain, target), "err": (chain, target)} when the value
    flows in a straight line from `chain_start` to one `?` / match on it; {} otherwise."""
    if chain_start is None:
        return {}
    sbs = {}
    for (sb, adt, m) in tmp.outcome_edges(src_local):
        if adt in RESULTISH and "ok" in m and "err" in m and sb not in sbs:
            sbs[sb] = m
    chain, blk = [], chain_start
    for _ in range(16):
        chain.append(blk)
        if blk in sbs:
            return {"ok": (chain, sbs[blk]["ok"]), "err": (chain, sbs[blk]["err"])}
        if tmp.term(blk)["k"] == "switch" or len(tmp.succ[blk]) != 1 or len(tmp.pred[blk]) > 1 and blk != chain_start:
            return {}
        blk = tmp.succ[blk][0]
    return {}


def _retarget(t, new):
    t = dict(t)
    if t["k"] in ("goto", "fu", "fe", "drop", "assert", "call", "yield"):
        t["t"] = new
    return t


def _clone_chain(fd, chain, final_target):
    base = len(fd["blocks"])
    for i, b in enumerate(chain):
        blk = fd["blocks"][b]
        nb = {"s": list(blk["s"])}
        nb["t"] = {"k": "goto", "t": final_target} if i == len(chain) - 1 else _retarget(blk["t"], base + i + 1)
        fd["blocks"].append(nb)
    return base


def _normal_succ(t):
    k = t["k"]
    if k in ("goto", "fu", "fe", "drop", "assert", "yield"):
        return [t["t"]]
    if k == "call":
        return [t["t"]] if t["t"] is not None else []
    if k == "switch":
        out = []
        for _, tb in t["v"]:
            if tb not in out:
                out.append(tb)
        if t["else"] not in out:
            out.append(t["else"])
        return out
    return []


def _wire_returns(fd, first, last, ret_local, emit_return, conts):
    """Blocks first..last are the helper's copy.  Every `ret` gets `emit_return(block, continuation_start)`.
    When the caller branches on the helper's Result (`conts`), the exits of the helper are kept apart: for each place
    where the helper assigns its return value as Ok(..) / Err(..) / from_residual(..), the tail from there to the return is
    cloned and wired straight to the caller's matching arm, so an error exit of the helper cannot appear to reach the
    caller's success continuation (and vice versa)."""
    rets = [b for b in range(first, last + 1) if fd["blocks"][b]["t"]["k"] == "ret"]
    default = None
    if conts:
        # classify the assignments of the return local
        sites = []
        for b in range(first, last + 1):
            blk = fd["blocks"][b]
            if blk.get("cl"):
                continue
            cls = None
            for st in blk["s"]:
                if st[0] == "A" and st[1]["l"] == ret_local and not st[1].get("p"):
                    rv = st[2]
                    cls = "unk"
                    if rv["k"] == "agg" and rv["a"].get("def") in RESULTISH:
                        cls = {"Ok": "ok", "Continue": "ok", "Err": "err", "Break": "err"}.get(rv["a"].get("v"), "unk")
            t = blk["t"]
            if t["k"] == "call" and t["d"]["l"] == ret_local and not t["d"].get("p"):
                path = (t.get("f") or {}).get("path") or ""
                cls = "err" if path.endswith("FromResidual::from_residual") else "unk"
            if cls is not None:
                sites.append((b, cls))
        site_blocks = {b for b, _ in sites}
        for (sb_, cls) in sites:
            if cls not in ("ok", "err"):
                continue
            # region: from the site's successors to the returns, not through another assignment of the return value
            region, work, ok = [], list(_normal_succ(fd["blocks"][sb_]["t"])), True
            seen = set()
            while work:
                x = work.pop()
                if x in seen:
                    continue
                seen.add(x)
                if not (first <= x <= last) or x in site_blocks or len(seen) > 64:
                    ok = False
                    break
                region.append(x)
                if fd["blocks"][x]["t"]["k"] != "ret":
                    work.extend(_normal_succ(fd["blocks"][x]["t"]))
            if not ok or not any(fd["blocks"][x]["t"]["k"] == "ret" for x in region):
                continue
            chain, target = conts[cls]
            cstart = _clone_chain(fd, chain, target)
            base = len(fd["blocks"])
            idx = {x: base + i for i, x in enumerate(region)}
            for x in region:
                blk = fd["blocks"][x]
                t = dict(blk["t"])
                nb = {"s": list(blk["s"])}
                if t["k"] == "ret":
                    nb["t"] = t
                    fd["blocks"].append(nb)
                    emit_return(len(fd["blocks"]) - 1, cstart)
                    continue
                if t["k"] == "switch":
                    t["v"] = [[v, idx.get(tb, tb)] for v, tb in t["v"]]
                    t["else"] = idx.get(t["else"], t["else"])
                elif "t" in t and t["t"] is not None:
                    t["t"] = idx.get(t["t"], t["t"])
                nb["t"] = t
                fd["blocks"].append(nb)
            # enter the private tail from the site
            st = dict(fd["blocks"][sb_])
            t = dict(st["t"])
            if t["k"] == "switch":
                t["v"] = [[v, idx.get(tb, tb)] for v, tb in t["v"]]
                t["else"] = idx.get(t["else"], t["else"])
            elif "t" in t and t["t"] is not None:
                t["t"] = idx.get(t["t"], t["t"])
            st["t"] = t
            fd["blocks"][sb_] = st
    for b in rets:
        emit_return(b, default)


def inline_sync(fd, b, hd, conts=None):
    """Replace the call terminator of block b of `fd` by the body of `hd` (a plain fn)."""
    t = fd["blocks"][b]["t"]
    lo = len(fd["locals"])
    bo = len(fd["blocks"]) + 1            # +1: the prelude block comes first
    blocks, dbg = _copy_body(hd, lo, bo)
    prelude = {"s": [], "t": {"k": "goto", "t": bo}}
    ln = t.get("ln", 0)
    for i, a in enumerate(t["args"]):
        if i + 1 < len(hd["locals"]):
            prelude["s"].append(["A", {"l": lo + 1 + i}, {"k": "use", "o": a}, ln])
    fd["blocks"][b] = {"s": fd["blocks"][b]["s"], "t": {"k": "goto", "t": bo - 1}}
    fd["blocks"].append(prelude)
    fd["blocks"].extend(blocks)
    fd["locals"] = fd["locals"] + hd["locals"]
    fd["dbg"] = fd.get("dbg", []) + dbg

    def emit(rb, cont):
        blk = fd["blocks"][rb]
        nxt = cont if cont is not None else t["t"]
        fd["blocks"][rb] = {"s": list(blk["s"]) + [["A", t["d"], {"k": "use", "o": {"m": {"l": lo}}}, ln]],
                            "t": {"k": "goto", "t": nxt} if nxt is not None else {"k": "unreachable"}}
    _wire_returns(fd, bo, bo + len(blocks) - 1, lo, emit, conts or {})


def inline_async(fd, ctor_block, poll_block, ready_block, ctor_fd, kd, conts=None):
    """Replace the poll of the future built by `ctor_fd` (an async fn) by its coroutine body `kd`."""
    ct = fd["blocks"][ctor_block]["t"]
    pt = fd["blocks"][poll_block]["t"]
    lo = len(fd["locals"])
    bo = len(fd["blocks"]) + 1
    blocks, dbg = _copy_body(kd, lo, bo)
    ln = ct.get("ln", 0)
    # the coroutine environment: upvar j is the ctor argument the ctor moved into slot j
    order = None
    for blk in ctor_fd["blocks"]:
        for st in blk["s"]:
            if st[0] == "A" and st[2]["k"] == "agg" and st[2]["a"].get("t") in ("coroutine", "closure", "coroutine_closure") and st[2]["a"].get("id") == kd["id"]:
                order = []
                for o in st[2]["ops"]:
                    p = o.get("m") or o.get("c")
                    order.append(p["l"] if p is not None and not p.get("p") else None)
    if order is None:
        return False
    ops = []
    for l in order:
        if l is None or not (1 <= l <= len(ct["args"])):
            return False
        ops.append(ct["args"][l - 1])
    prelude = {"s": [["A", {"l": lo + 1}, {"k": "agg", "a": {"t": "tuple"}, "ops": ops}, ln]], "t": {"k": "goto", "t": bo}}
    fd["blocks"][poll_block] = {"s": fd["blocks"][poll_block]["s"], "t": {"k": "goto", "t": bo - 1}}
    fd["blocks"].append(prelude)
    fd["blocks"].extend(blocks)
    fd["locals"] = fd["locals"] + kd["locals"]
    fd["dbg"] = fd.get("dbg", []) + dbg

    def emit(rb, cont):
        blk = fd["blocks"][rb]
        ready = {"k": "agg", "a": {"t": "adt", "def": "core::task::poll::Poll", "v": "Ready", "fields": ["0"]}, "ops": [{"m": {"l": lo}}]}
        fd["blocks"][rb] = {"s": list(blk["s"]) + [["A", pt["d"], ready, ln]], "t": {"k": "goto", "t": cont if cont is not None else ready_block}}
    _wire_returns(fd, bo, bo + len(blocks) - 1, lo, emit, conts or {})
    return True


# ------------------------------------------------------------------ whole program
def apply(prog, Fn):
    """Inline the helpers that are not on the pinned tree.  Returns a report dict (also stored as prog.inlined)."""
    pinned = load_pinned()
    rep = {"new_functions": [], "inlined_sites": 0, "removed": [], "kept": {}}
    prog.inlined = rep
    prog.inlined_into = {}
    if pinned is None:
        return rep
    named_new = [f for f in prog.fns.values() if f.kind != "Closure" and f.path not in pinned]
    if not named_new:
        return rep
    rep["new_functions"] = sorted(f.path for f in named_new)
    new_ids = {f.id for f in named_new}
    bodies = {}                       # helper id -> ("sync", fn) | ("async", ctor fn, coroutine fn)
    for f in named_new:
        k = prog.async_body(f)
        bodies[f.id] = ("async", f, k) if k is not None else ("sync", f, None)
    body_ids = {(b[2].id if b[0] == "async" else b[1].id): hid for hid, b in bodies.items()}

    # references that make a helper more than a callee: fn-item refs, recursion
    def calls_into(fd):
        out = set()
        for blk in fd["blocks"]:
            t = blk["t"]
            if t["k"] == "call":
                c = _callee_id(t)
                if c in new_ids:
                    out.add(c)
        return out
    dep = {hid: calls_into((b[2] or b[1]).d) for hid, b in bodies.items()}
    # order: helpers that call no other new helper first; drop recursive ones
    order, done, guard = [], set(), 0
    pending = set(bodies)
    while pending and guard < 1000:
        guard += 1
        ready = [h for h in pending if not (dep[h] & pending - {h}) and h not in dep[h]]
        if not ready:
            break
        for h in sorted(ready):
            order.append(h)
            pending.discard(h)
    for h in pending:
        rep["kept"][prog.fns[h].path] = "recursive (or mutually recursive) helper: not inlined"
    refd = set()
    for f in prog.fns.values():
        for e in f.events:
            if e.kind == "ref" and (e.rid in new_ids or e.cid in new_ids):
                refd.add(e.rid if e.rid in new_ids else e.cid)
    work_fds = {}                     # fn id -> mutable dict being rewritten

    def fd_of(f):
        if f.id not in work_fds:
            work_fds[f.id] = copy.deepcopy(f.d) if False else _shallow_fd(f.d)
        return work_fds[f.id]
    uninlined = {}
    for hid in order:
        kind, hf, kf = bodies[hid]
        hd = fd_of(kf if kind == "async" else hf)      # already contains inlined inner helpers
        for f in list(prog.fns.values()):
            if f.id == hid or (kf is not None and f.id == kf.id):
                continue
            # call sites in the *current* (possibly already rewritten) dict of f
            cur = work_fds.get(f.id, f.d)
            sites = [b for b, blk in enumerate(cur["blocks"]) if blk["t"]["k"] == "call" and _callee_id(blk["t"]) == hid and not blk.get("cl")]
            if not sites:
                continue
            fd = fd_of(f)
            if kind == "sync":
                tmp = Fn(fd, f.crate, prog)
                plans = [(b, continuations(tmp, fd["blocks"][b]["t"]["d"]["l"], fd["blocks"][b]["t"]["t"])) for b in sites]
                for (b, conts) in plans:
                    inline_sync(fd, b, hd, conts)
                    rep["inlined_sites"] += 1
                prog.inlined_into.setdefault(hid, f.id)
            else:
                tmp = Fn(fd, f.crate, prog)     # events of the current shape: ctor call -> poll block
                ok_all = True
                plan = []
                for e in tmp.events:
                    if e.kind == "call" and (e.rid == hid or e.cid == hid):
                        if not e.awaited or e.poll_block is None:
                            ok_all = False
                            continue
                        pd = tmp.term(e.poll_block)["d"]
                        ready = None
                        for (sb, place, adt, m, els) in tmp.variant_edges():
                            if adt == "core::task::poll::Poll" and place.l == pd["l"] and not place.p and "Ready" in m:
                                ready = m["Ready"]
                        if ready is None:
                            ok_all = False
                            continue
                        plan.append((e.call_block, e.poll_block, ready, continuations(tmp, pd["l"], ready)))
                for (cb, pb, rb, conts) in plan:
                    if inline_async(fd, cb, pb, rb, hf.d, hd, conts):
                        rep["inlined_sites"] += 1
                        prog.inlined_into.setdefault(hid, f.id)
                        prog.inlined_into.setdefault(kf.id, f.id)
                    else:
                        ok_all = False
                if not ok_all:
                    uninlined[hid] = "an await of this async helper could not be matched to its future (join!/Box::pin/etc.)"
    # install the rewritten bodies
    for fid, fd in work_fds.items():
        old = prog.fns[fid]
        if fd is old.d:
            continue
        nf = Fn(fd, old.crate, prog)
        prog.fns[fid] = nf
        lst = prog.by_path[nf.path]
        prog.by_path[nf.path] = [nf if x.id == fid else x for x in lst]
        if nf.trait_item:
            prog.trait_impls[nf.trait_item] = [nf if x.id == fid else x for x in prog.trait_impls[nf.trait_item]]
        if nf.parent:
            prog.children[nf.parent] = [nf if x.id == fid else x for x in prog.children[nf.parent]]
    # closures created inside an inlined helper now belong to the caller as well
    for hid, into in prog.inlined_into.items():
        for c in prog.children.get(hid, []):
            if c.id not in {x.id for x in prog.children.get(into, [])} and c.id not in body_ids:
                prog.children[into].append(c)
    # remove helpers that are now fully transparent
    for hid in order:
        kind, hf, kf = bodies[hid]
        why = None
        if hf.vis == "pub":
            why = "public: a new entry point, analysed on its own as well"
        elif hid in refd:
            why = "referenced as a fn item"
        elif hid in uninlined:
            why = uninlined[hid]
        elif hid not in prog.inlined_into:
            why = "no inlinable call site (unused, or called only through a trait)"
        if why:
            rep["kept"][hf.path] = why
            continue
        for x in ([hf] + ([kf] if kf is not None else [])):
            prog.fns.pop(x.id, None)
            prog.by_path[x.path] = [y for y in prog.by_path.get(x.path, []) if y.id != x.id]
        rep["removed"].append(hf.path)
    return rep


def _shallow_fd(d):
    """A copy whose block list, locals and dbg can be extended / have entries replaced without touching the cached facts."""
    n = dict(d)
    n["blocks"] = list(d["blocks"])
    n["locals"] = list(d["locals"])
    n["dbg"] = list(d.get("dbg", []))
    return n
