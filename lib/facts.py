"""Extraction and loading of MIR fact files (engine E1 front end).

`ensure_facts()` (re)runs the `mirfacts` rustc driver over /repo's *current
working tree* whenever a fact file is missing or was produced from source files
whose content differs from what is on disk now.  It fails closed: if after the
run any expected crate has no current fact file, `FactsError` is raised and the
caller exits 2 (checker fault), never 0.
"""
import fcntl
import glob
import hashlib
import json
import os
import pickle
import shutil
import subprocess
import sys
import time

VERIF = os.path.dirname(os.path.dirname(os.path.abspath(__file__)))
REPO = os.environ.get("VERIF_REPO", "/repo")
CACHE = os.environ.get("VERIF_CACHE", os.path.join(VERIF, ".cache"))
FACTS = os.path.join(CACHE, "facts")
TARGET = os.path.join(CACHE, "target")
DRIVER_DIR = os.path.join(VERIF, "mirfacts")
DRIVER = os.path.join(DRIVER_DIR, "target", "release", "mirfacts")

# crate name -> fact files expected (lib and/or bin)
EXPECTED = {
    "anda_db": ["lib"],
    "anda_db_btree": ["lib"],
    "anda_db_tfs": ["lib"],
    "anda_db_hnsw": ["lib"],
    "anda_db_schema": ["lib"],
    "anda_db_utils": ["lib"],
    "anda_db_derive": ["lib"],
    "anda_kip": ["lib"],
    "anda_object_store": ["lib"],
    "anda_cognitive_nexus": ["lib"],
    "anda_cognitive_nexus_server": ["bin"],
    "anda_db_server": ["lib", "bin"],
    "anda_db_shard_proxy": ["lib", "bin"],
}


class FactsError(Exception):
    pass


def _sysroot():
    return subprocess.check_output(["rustc", "+nightly", "--print", "sysroot"], text=True).strip()


def build_driver():
    env = dict(os.environ, CARGO_NET_OFFLINE="true")
    r = subprocess.run(["cargo", "build", "--release", "--offline"], cwd=DRIVER_DIR, env=env,
                       stdout=subprocess.PIPE, stderr=subprocess.STDOUT, text=True)
    if r.returncode != 0 or not os.path.exists(DRIVER):
        raise FactsError("driver build failed:\n" + r.stdout[-4000:])


def _hash_file(path, alg):
    h = hashlib.new({"Md5": "md5", "Sha1": "sha1", "Sha256": "sha256"}.get(alg, "md5"))
    with open(path, "rb") as f:
        h.update(f.read())
    return h.hexdigest()


def _manifest_key():
    h = hashlib.sha256()
    for p in sorted(glob.glob(os.path.join(REPO, "rs", "*", "Cargo.toml"))) + [
            os.path.join(REPO, "Cargo.toml"), os.path.join(REPO, "Cargo.lock")]:
        if os.path.exists(p):
            h.update(p.encode())
            h.update(open(p, "rb").read())
    # the driver itself is part of the key
    if os.path.exists(DRIVER):
        h.update(open(DRIVER, "rb").read())
    return h.hexdigest()


def _fact_path(crate, kind):
    return os.path.join(FACTS, "%s.%s.json" % (crate, kind))


def _read_header(path):
    """The header (sources etc.) is on the first line of the fact file."""
    with open(path, "r") as f:
        first = f.readline()
    # first line ends with `"fns":[`
    return json.loads(first + "]}")


def _is_current(crate, kind, mkey):
    p = _fact_path(crate, kind)
    if not os.path.exists(p):
        return False, "missing"
    try:
        hd = _read_header(p)
    except Exception as e:  # corrupted
        return False, "unreadable header: %s" % e
    if hd.get("run_id", "").split(":")[0] != mkey[:16]:
        return False, "manifest/driver key changed"
    for s in hd["sources"]:
        sp = s["path"]
        ap = sp if os.path.isabs(sp) else os.path.join(REPO, sp)
        if not os.path.exists(ap):
            return False, "source vanished: %s" % sp
        if _hash_file(ap, s["alg"]) != s["hash"]:
            return False, "source changed: %s" % sp
    return True, ""


def _stale(mkey):
    out = []
    for c, kinds in EXPECTED.items():
        for k in kinds:
            ok, why = _is_current(c, k, mkey)
            if not ok:
                out.append((c, k, why))
    return out


def _run_cargo(mkey, log):
    env = dict(os.environ)
    env.update({
        "CARGO_NET_OFFLINE": "true",
        "CARGO_INCREMENTAL": "0",
        "RUSTFLAGS": "-Zmir-opt-level=0 -Awarnings",
        "RUSTC_WORKSPACE_WRAPPER": DRIVER,
        "MIRFACTS_OUT": FACTS,
        "MIRFACTS_RUN_ID": "%s:%d" % (mkey[:16], int(time.time())),
        "MIRFACTS_CRATES": ",".join(EXPECTED),
        "CARGO_TARGET_DIR": TARGET,
        "LD_LIBRARY_PATH": _sysroot() + "/lib:" + os.environ.get("LD_LIBRARY_PATH", ""),
    })
    env.pop("RUSTC_WRAPPER", None)
    r = subprocess.run(["cargo", "+nightly", "check", "--offline", "--workspace"], cwd=REPO, env=env,
                       stdout=subprocess.PIPE, stderr=subprocess.STDOUT, text=True)
    log.append(r.stdout[-6000:])
    return r.returncode


def ensure_facts(verbose=True):
    """Make every expected fact file current w.r.t. /repo's working tree."""
    os.makedirs(FACTS, exist_ok=True)
    os.makedirs(TARGET, exist_ok=True)
    lock = open(os.path.join(CACHE, "lock"), "w")
    fcntl.flock(lock, fcntl.LOCK_EX)
    try:
        if not os.path.exists(DRIVER):
            build_driver()
        mkey = _manifest_key()
        stale = _stale(mkey)
        info = {"reextracted": [], "cargo_runs": 0}
        if not stale:
            return info
        t0 = time.time()
        log = []
        # force the wrapper to run again for the stale crates (cargo's freshness
        # cache would otherwise skip it); dependents are re-run by cargo itself.
        for c, k, why in stale:
            if verbose:
                print("[facts] stale %s.%s: %s" % (c, k, why), file=sys.stderr)
            for fp in glob.glob(os.path.join(TARGET, "debug", ".fingerprint", c.replace("_", "[-_]") + "-*")):
                shutil.rmtree(fp, ignore_errors=True)
            for fp in glob.glob(os.path.join(TARGET, "debug", ".fingerprint", c + "-*")) + \
                    glob.glob(os.path.join(TARGET, "debug", ".fingerprint", c.replace("_", "-") + "-*")):
                shutil.rmtree(fp, ignore_errors=True)
            try:
                os.remove(_fact_path(c, k))
            except FileNotFoundError:
                pass
        rc = _run_cargo(mkey, log)
        info["cargo_runs"] += 1
        if rc != 0:
            raise FactsError("cargo check with the mirfacts driver failed (the tree does not build?):\n" + log[-1])
        still = _stale(mkey)
        if still:
            raise FactsError("fact files still not current after extraction: %r\n%s" % (still, log[-1]))
        info["reextracted"] = ["%s.%s" % (c, k) for c, k, _ in stale]
        info["extract_s"] = round(time.time() - t0, 1)
        if verbose:
            print("[facts] extracted %d fact files in %.1fs" % (len(stale), time.time() - t0), file=sys.stderr)
        return info
    finally:
        fcntl.flock(lock, fcntl.LOCK_UN)
        lock.close()


def load_crate(crate, kind="lib"):
    """Load one fact file (cached as a pickle keyed by the file's mtime+size)."""
    p = _fact_path(crate, kind)
    st = os.stat(p)
    pk = p + ".pickle"
    if os.path.exists(pk):
        try:
            with open(pk, "rb") as f:
                key, data = pickle.load(f)
            if key == (st.st_mtime_ns, st.st_size):
                return data
        except Exception:
            pass
    with open(p, "r") as f:
        data = json.load(f)
    try:
        tmp = pk + ".tmp.%d" % os.getpid()
        with open(tmp, "wb") as f:
            pickle.dump(((st.st_mtime_ns, st.st_size), data), f, protocol=pickle.HIGHEST_PROTOCOL)
        os.replace(tmp, pk)
    except Exception:
        pass
    return data


if __name__ == "__main__":
    try:
        print(json.dumps(ensure_facts()))
    except FactsError as e:
        print("FACTS ERROR:", e, file=sys.stderr)
        sys.exit(2)
